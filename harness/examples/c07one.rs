//! run one text through C07's four configurations with timing: c07one <max_steps> <text>...
use gv::checks::c01::front_end;
use gv::model::data::*;
use gv::model::hosts::*;
use gv::model::value::{V, pair, sym};
use std::time::Instant;
fn main() {
    gv::engine::core::install_panic_hook();
    let a: Vec<String> = std::env::args().collect();
    let max: usize = a[1].parse().unwrap();
    for s in &a[2..] {
        let s = s.replace("\\n", "\n");
        let parsed = match front_end(&s, None) { Ok(p) => p, Err(e) => { println!("not accepted {:?}", e); continue } };
        let input = V::List(vec![pair(sym("k"), V::Int(3)), V::Int(5)]);
        let hosts = [
            HostState::default(),
            HostState { defer_answer: Some(4242), resolve_script: vec![(garnish_lang_simple_data::symbol_value("f"), 7), (garnish_lang_simple_data::symbol_value("u"), 2147483647)], ..HostState::default() },
        ];
        for (hi, host) in hosts.iter().enumerate() {
            for imp in Impl::BOTH {
                let t0 = Instant::now();
                let r = match imp {
                    Impl::Simple => gv::checks::c07::run_one(&mut new_simple_hosted(host.clone()), &parsed, &input, max),
                    Impl::Basic => gv::checks::c07::run_one(&mut new_basic_hosted(host.clone()), &parsed, &input, max),
                };
                println!("host{} {:6} {:.3}s {:?}", hi, imp.name(), t0.elapsed().as_secs_f64(), r.map_err(|e| e.0));
            }
        }
    }
}
