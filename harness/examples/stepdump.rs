//! step a program on Basic with C07's host mode 1, printing growth: stepdump <max_steps> <text>
use gv::checks::c01::front_end;
use gv::model::hosts::*;
use gv::model::pipeline::*;
use gv::model::value::{self, V, pair, sym};
use garnish_lang_traits::GarnishData;
use garnish_lang_runtime::*;
use std::time::Instant;
fn main() {
    gv::engine::core::install_panic_hook();
    let a: Vec<String> = std::env::args().collect();
    let max: usize = a[1].parse().unwrap();
    let s = a[2].replace("\\n", "\n");
    let parsed = front_end(&s, None).expect("accepted");
    let input = V::List(vec![pair(sym("k"), V::Int(3)), V::Int(5)]);
    let host = HostState { defer_answer: Some(4242), resolve_script: vec![(garnish_lang_simple_data::symbol_value("f"), 7), (garnish_lang_simple_data::symbol_value("u"), 2147483647)], ..HostState::default() };
    let simple = a.get(3).map(|x| x == "simple").unwrap_or(false);
    if simple {
        let mut d = new_simple_hosted(host);
        go(&mut d, &parsed, &input, max);
    } else {
        let mut d = new_basic_hosted(host);
        go(&mut d, &parsed, &input, max);
    }
}
fn go<D: gv::model::data::GD + Hosted>(d: &mut D, parsed: &garnish_lang_compiler::parse::ParseResult, input: &V, max: usize) {
    let b = build_g(parsed, d).unwrap().unwrap();
    for i in 0..d.get_instruction_len() {
        println!("  {:3} {:?}", i, d.get_instruction(i));
    }
    let ia = value::build_value(d, input).unwrap();
    let start = d.get_from_jump_table(*b.jump_index()).unwrap();
    d.set_instruction_cursor(start).unwrap();
    d.push_value_stack(ia).unwrap();
    let t0 = Instant::now();
    for step in 0..max {
        let cur = d.get_instruction_cursor();
        let ins = d.get_instruction(cur);
        let t1 = Instant::now();
        let r = execute_current_instruction(d);
        let dt = t1.elapsed().as_secs_f64();
        if dt > 0.005 || step % 50 == 0 || r.is_err() {
            println!("step {} at {} {:?}: {:.4}s data_len={} regs={} log={} -> {:?}", step, cur, ins, dt, d.get_data_len(), d.get_register_len(), d.host().log.len(), r.as_ref().map(|i| i.get_state()).map_err(|e| e.to_string()));
        }
        match r { Err(_) => break, Ok(i) if i.get_state() == SimpleRuntimeState::End => break, _ => {} }
    }
    println!("total {:.3}s", t0.elapsed().as_secs_f64());
}
