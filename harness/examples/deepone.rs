//! run one deep-data case of C07: deepone <kind> <n>   (aborts on stack overflow)
fn main() {
    gv::engine::core::install_panic_hook();
    let a: Vec<String> = std::env::args().collect();
    let (kind, n): (usize, usize) = (a[1].parse().unwrap(), a[2].parse().unwrap());
    let mut ctx = gv::engine::core::CaseCtx::new(true);
    gv::checks::c07::execute_deep(&gv::checks::c07::deep(n, kind), &mut ctx, 100_000);
    println!("kind {} n {} classes {:?} failures {:?}", kind, n, ctx.classes, ctx.failures.iter().map(|f| f.sig.clone()).collect::<Vec<_>>());
}
