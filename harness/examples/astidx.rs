//! print the core AST with a given index: astidx <max_nodes> <index>...
fn main() {
    let a: Vec<String> = std::env::args().collect();
    let max: usize = a[1].parse().unwrap();
    for i in &a[2..] {
        let ast = gv::model::astgen::unrank(i.parse().unwrap(), max).unwrap();
        let p = gv::model::astgen::printable(&ast).map(|(t, _, _)| gv::model::refparse::render(&t, gv::model::refparse::Layout::Spaced));
        println!("{} => {:?}", ast, p);
    }
}
