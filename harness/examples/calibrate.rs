//! Calibrate the reference evaluator against the repository's own scripts (each is `lhs = rhs`, both sides must be equal).
use gv::checks::c01::{Got, run_real};
use gv::model::data::Impl;
use gv::model::refeval::{Eval, Host, veq};
use gv::model::refparse::{Pratt, tokens_from_text};
use gv::model::value::V;
fn main() {
    gv::engine::core::install_panic_hook();
    let mut files = vec![];
    fn walk(d: &std::path::Path, out: &mut Vec<std::path::PathBuf>) {
        for e in std::fs::read_dir(d).unwrap() {
            let p = e.unwrap().path();
            if p.is_dir() { walk(&p, out) } else { out.push(p) }
        }
    }
    walk(std::path::Path::new("/repo/tests/scripts"), &mut files);
    files.sort();
    for extra in std::env::args().skip(1) {
        files.push(std::path::PathBuf::from(extra));
    }
    for f in files {
        let text = if f.exists() { std::fs::read_to_string(&f).unwrap() } else { f.to_string_lossy().to_string().replace("\\n", "\n") };
        let name = f.to_string_lossy().replace("/repo/tests/scripts/", "");
        let toks = match tokens_from_text(&text) {
            Ok(t) => t,
            Err(e) => { println!("{:45} tokens: {}", name, e); continue; }
        };
        let sx = match Pratt::parse(&toks) {
            Ok(s) => s,
            Err(e) => { println!("{:45} refparse: {}", name, e); continue; }
        };
        let host = Host::default();
        let mut ev = Eval::new(&host, 100000);
        let r = ev.run(&sx, V::Unit);
        let real = run_real(Impl::Basic, &text, None, &V::Unit, 100000);
        let real_s = run_real(Impl::Simple, &text, None, &V::Unit, 100000);
        match (&r, &real) {
            (Ok(v), Got::Value(g)) => {
                let agree = gv::model::value::same(v, g);
                let sides = if let V::Pair(a, b) = v { format!("{:?}", veq(a, b)) } else { "-".into() };
                let simple_ok = matches!(&real_s, Got::Value(s) if gv::model::value::same(v, s));
                println!("{:45} ref==basic:{} ref==simple:{} sides-equal:{} value {}", name, agree, simple_ok, sides, if agree { String::new() } else { format!("ref {} basic {}", v, g) });
            }
            (Err(e), _) => println!("{:45} reference: {:?}   (basic: {:.60})", name, e, format!("{:?}", real)),
            (Ok(v), g) => println!("{:45} ref {} but basic {:?}", name, v, g),
        }
    }
}
