//! print what an exhaustive index of a check's phase renders to: renderidx <ID> <tier> <phase> <index>...
use gv::engine::core::*;
fn main() {
    let a: Vec<String> = std::env::args().collect();
    let chk = gv::checks::find(&a[1]).expect("check");
    let tier = if a[2] == "thorough" { Tier::Thorough } else { Tier::Quick };
    let phase: usize = a[3].parse().unwrap();
    for i in &a[4..] {
        println!("{}", chk.render(tier, phase, &Input::Index(i.parse().unwrap())));
    }
}
