use garnish_lang_compiler::lex::lex;
fn main() {
    for a in std::env::args().skip(1) {
        let s = a.replace("\\n", "\n").replace("\\t", "\t").replace("\\r", "\r");
        match lex(&s) {
            Ok(t) => {
                println!("{:?} =>", s);
                for t in t {
                    println!("   {:?} {:?} ({},{})", t.get_token_type(), t.get_text(), t.get_line(), t.get_column());
                }
            }
            Err(e) => println!("{:?} => Err {}", s, e),
        }
    }
}
