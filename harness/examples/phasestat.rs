//! class histogram of one exhaustive phase: phasestat <ID> <tier> <phase> [step]
use gv::engine::core::*;
use std::collections::BTreeMap;
fn main() {
    install_panic_hook();
    let a: Vec<String> = std::env::args().collect();
    let chk = gv::checks::find(&a[1]).expect("check");
    let tier = if a[2] == "thorough" { Tier::Thorough } else { Tier::Quick };
    let phase: usize = a[3].parse().unwrap();
    let step: u64 = a.get(4).and_then(|x| x.parse().ok()).unwrap_or(1);
    let count = match chk.phases(tier)[phase].kind { PhaseKind::Exhaustive { count } => count, _ => 0 };
    let mut h: BTreeMap<String, u64> = BTreeMap::new();
    let mut undefined_examples = vec![];
    let mut i = 0;
    while i < count {
        let mut ctx = CaseCtx::new(true);
        chk.run(tier, phase, &Input::Index(i), &mut ctx);
        let key = ctx.classes.iter().filter(|c| ["judged", "reference-undefined", "reference-parser-rejects", "text-not-tokenised", "layout-merge", "not-printable"].contains(c)).cloned().collect::<Vec<_>>().join("+");
        if key.contains("undefined") && !key.contains("judged") && undefined_examples.len() < 40 && i % 97 == 0 {
            undefined_examples.push(ctx.rendered.clone().unwrap_or_default());
        }
        *h.entry(key).or_insert(0) += 1;
        i += step;
    }
    println!("{:?}", h);
    for e in undefined_examples { println!("  undefined: {}", e); }
}
