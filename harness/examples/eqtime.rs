//! time Equal on two symbol lists / lists of n items: eqtime <kind> <n>...
use gv::model::data::*;
use gv::model::opcall::call;
use gv::model::value::{SymPart, V};
use garnish_lang_traits::Instruction;
use std::time::Instant;
fn main() {
    let a: Vec<String> = std::env::args().collect();
    for n in &a[2..] {
        let n: usize = n.parse().unwrap();
        let mk = |alt: bool| match a[1].as_str() {
            "symlist" => V::SymList((0..n).map(|k| SymPart::Sym(if alt && k == 0 { 7 } else { 1000 + k as u64 })).collect()),
            _ => V::List((0..n).map(|k| V::Int(k as i32)).collect()),
        };
        for imp in ["simple", "basic"] {
            let t0 = Instant::now();
            let r = if imp == "simple" { call(&mut new_simple(), Instruction::Equal, &mk(false), Some(&mk(true))).map(|o| format!("{:?}", o.result)) } else { call(&mut new_basic(), Instruction::Equal, &mk(false), Some(&mk(true))).map(|o| format!("{:?}", o.result)) };
            println!("{} n={} {:?} {:.3}s", imp, n, r, t0.elapsed().as_secs_f64());
        }
    }
}
