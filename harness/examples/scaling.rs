use gv::checks::c03::{FAMILIES, family_input};
use gv::model::pipeline::*;
use gv::model::data::*;
use std::time::Instant;
fn main() {
    gv::engine::core::install_panic_hook();
    for fam in FAMILIES {
        let mut line = format!("{:22}", fam);
        for n in [256usize, 512, 1024, 2048, 4096, 8192] {
            let s = family_input(fam, n);
            let t0 = Instant::now();
            let mut stage = "lexerr";
            if let Ok(Ok(toks)) = lex_g(&s) {
                stage = "parseerr";
                if let Ok(Ok(p)) = parse_g(&toks) {
                    stage = "built";
                    if !tree_has_cycle(p.get_root(), p.get_nodes()) {
                        let r = build_g(&p, &mut new_simple());
                        if !matches!(r, Ok(Ok(_))) { stage = "builderr"; }
                    } else { stage = "cyclic"; }
                }
            }
            line.push_str(&format!(" {}:{:.1}ms({})", n, t0.elapsed().as_secs_f64() * 1000.0, &stage[..1]));
        }
        println!("{}", line);
    }
}
