//! find exhaustive cases whose rendering contains a string: findcase <ID> <tier> <phase> <needle> [max]
use gv::engine::core::*;
fn main() {
    install_panic_hook();
    let a: Vec<String> = std::env::args().collect();
    let chk = gv::checks::find(&a[1]).expect("check");
    let tier = if a[2] == "thorough" { Tier::Thorough } else { Tier::Quick };
    let phase: usize = a[3].parse().unwrap();
    let needle = a[4].replace("\\n", "\n");
    let max: u64 = a.get(5).and_then(|x| x.parse().ok()).unwrap_or(u64::MAX);
    let count = match chk.phases(tier)[phase].kind { PhaseKind::Exhaustive { count } => count, _ => 0 };
    let mut shown = 0;
    for i in 0..count.min(max) {
        let mut r = chk.render(tier, phase, &Input::Index(i));
        let mut pre = None;
        if r.starts_with("phase ") || r.starts_with("Index(") {
            // the check renders the case only while running it
            let mut ctx = CaseCtx::new(true);
            chk.run(tier, phase, &Input::Index(i), &mut ctx);
            r = ctx.rendered.clone().unwrap_or(r);
            pre = Some(ctx);
        }
        if r.contains(&needle) {
            let mut ctx = match pre { Some(c) => c, None => CaseCtx::new(true) };
            if ctx.classes.is_empty() && ctx.failures.is_empty() { chk.run(tier, phase, &Input::Index(i), &mut ctx); }
            println!("idx={} {} classes={:?} failures={:?}", i, r, ctx.classes, ctx.failures.iter().map(|f| f.sig.clone()).collect::<Vec<_>>());
            shown += 1;
            if shown >= 20 { break; }
        }
    }
}
