//! time the cases of an exhaustive phase one by one: casetime <ID> <quick|thorough> <phase> <from> <to>
use gv::engine::core::*;
use std::time::Instant;
fn main() {
    install_panic_hook();
    let a: Vec<String> = std::env::args().collect();
    let chk = gv::checks::find(&a[1]).expect("check");
    let tier = if a[2] == "thorough" { Tier::Thorough } else { Tier::Quick };
    let phase: usize = a[3].parse().unwrap();
    let from: u64 = a[4].parse().unwrap();
    let to: u64 = a[5].parse().unwrap();
    let mut times = vec![];
    let t00 = Instant::now();
    for i in from..to {
        let mut ctx = CaseCtx::new(true);
        let t0 = Instant::now();
        chk.run(tier, phase, &Input::Index(i), &mut ctx);
        times.push((t0.elapsed().as_secs_f64(), i, ctx.sub_evals, ctx.rendered.clone().unwrap_or_default()));
    }
    println!("total {:.2}s for {} cases", t00.elapsed().as_secs_f64(), times.len());
    times.sort_by(|a, b| b.0.partial_cmp(&a.0).unwrap());
    for t in times.iter().take(15) {
        println!("{:.4}s idx={} evals={} {}", t.0, t.1, t.2, t.3);
    }
}
