use gv::checks::c01::run_real;
use gv::model::data::Impl;
use gv::model::value::V;
use std::time::Instant;
fn main() {
    gv::engine::core::install_panic_hook();
    for a in std::env::args().skip(1) {
        let s = a.replace("\\n", "\n");
        for imp in Impl::BOTH {
            let t0 = Instant::now();
            let g = run_real(imp, &s, None, &V::Unit, std::env::var("MAXSTEPS").ok().and_then(|x| x.parse().ok()).unwrap_or(200000));
            let out = format!("{:?}", g);
            println!("{:6} {:.3}s {}", imp.name(), t0.elapsed().as_secs_f64(), &out[..out.len().min(300)]);
        }
    }
}
