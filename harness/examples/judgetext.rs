//! run one text through a check's text-mode oracle and print the classes and failures: judgetext <ID> <text>...
use gv::engine::core::*;
fn main() {
    install_panic_hook();
    let a: Vec<String> = std::env::args().collect();
    let chk = gv::checks::find(&a[1]).expect("check");
    for s in &a[2..] {
        let s = s.replace("\\n", "\n");
        let mut ctx = CaseCtx::new(true);
        chk.run(Tier::Quick, 0, &Input::Text(s.clone()), &mut ctx);
        println!("{:?} classes={:?} failures={:?}", s, ctx.classes, ctx.failures.iter().map(|f| f.sig.clone()).collect::<Vec<_>>());
    }
}
