//! print the source text that checks::c02::random_source derives from a tape (hex)
fn main() {
    for a in std::env::args().skip(1) {
        let t = gv::engine::unhex(&a);
        println!("{:?}", gv::checks::c02::random_source(&t));
    }
}
