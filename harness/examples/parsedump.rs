use garnish_lang_compiler::lex::lex;
use garnish_lang_compiler::parse::parse;
fn main() {
    for a in std::env::args().skip(1) {
        let s = a.replace("\\n", "\n").replace("\\t", "\t").replace("\\r", "\r");
        println!("== {:?}", s);
        let toks = match lex(&s) { Ok(t) => t, Err(e) => { println!("lex err {}", e); continue; } };
        match parse(&toks) {
            Ok(r) => {
                println!("root {}", r.get_root());
                for (i, n) in r.get_nodes().iter().enumerate() {
                    println!("  {} {:?} {:?} parent={:?} left={:?} right={:?} tok={:?}", i, n.get_definition(), n.get_secondary_definition(), n.get_parent(), n.get_left(), n.get_right(), n.get_lex_token().get_text());
                }
                println!("  sx: {}", gv::model::sx::from_parse(r.get_root(), r.get_nodes()));
            }
            Err(e) => println!("parse err {}", e),
        }
    }
}
