//! Runtime of the coverage-guided stage: the bodies of the libFuzzer targets in /verif/fuzz.
//!
//! `text`: the bytes are a source text, judged by the text-mode oracle of the selected check.
//! `tape`: the bytes are a choice tape for one of the selected check's random phases (the first byte picks the phase),
//!         so libFuzzer's coverage feedback over the repository's code steers the same structured generators that the
//!         proptest driver feeds with random tapes.
//! A failure whose root-cause signature is not an open known finding aborts the process (libFuzzer then saves the
//! input); the verdict is never taken from that abort: the driver replays every saved input through `gv replay`.
//! Counters are written at exit to $GV_FUZZ_STATS_DIR/stats.<pid>.json and merged by the driver.

use crate::checks;
use crate::engine::core::*;
use crate::engine::findings::{self, Finding};
use serde_json::json;
use std::collections::{BTreeMap, BTreeSet};
use std::sync::{Mutex, OnceLock};

struct State {
    check: &'static dyn Check,
    findings: Vec<Finding>,
    random_phases: Vec<usize>,
    execs: u64,
    judged: u64,
    sub_evals: u64,
    nontrivial: BTreeSet<u64>,
    classes: BTreeMap<&'static str, u64>,
    known: BTreeMap<String, u64>,
    samples: Vec<String>,
    mode: &'static str,
}

static STATE: OnceLock<Mutex<State>> = OnceLock::new();

extern "C" fn dump_stats() {
    let dir = match std::env::var("GV_FUZZ_STATS_DIR") {
        Ok(d) => d,
        Err(_) => return,
    };
    if let Some(m) = STATE.get() {
        if let Ok(st) = m.lock() {
            let v = json!({
                "mode": st.mode, "execs": st.execs, "judged": st.judged, "sub_evals": st.sub_evals,
                "nontrivial": st.nontrivial.len(),
                "classes": st.classes, "known": st.known, "samples": st.samples,
            });
            let _ = std::fs::write(format!("{}/stats.{}.json", dir, std::process::id()), v.to_string());
            let mut buf = Vec::with_capacity(st.nontrivial.len() * 8);
            for f in &st.nontrivial {
                buf.extend_from_slice(&f.to_le_bytes());
            }
            let _ = std::fs::write(format!("{}/fps.{}.bin", dir, std::process::id()), &buf);
        }
    }
}

fn state(mode: &'static str) -> &'static Mutex<State> {
    STATE.get_or_init(|| {
        let id = std::env::var("GV_FUZZ_PROP").unwrap_or_else(|_| {
            eprintln!("gv-fuzz: GV_FUZZ_PROP not set");
            std::process::exit(2)
        });
        let check = checks::find(&id).unwrap_or_else(|| {
            eprintln!("gv-fuzz: unknown check {}", id);
            std::process::exit(2)
        });
        // replaces libfuzzer-sys's abort-on-panic hook: panics of the code under test are caught and judged by the oracles
        install_panic_hook();
        let random_phases: Vec<usize> = check.phases(Tier::Thorough).iter().enumerate().filter(|(_, p)| matches!(p.kind, PhaseKind::Random { .. })).map(|(i, _)| i).collect();
        unsafe {
            libc::atexit(dump_stats);
        }
        Mutex::new(State {
            check,
            findings: findings::load(),
            random_phases,
            execs: 0,
            judged: 0,
            sub_evals: 0,
            nontrivial: BTreeSet::new(),
            classes: BTreeMap::new(),
            known: BTreeMap::new(),
            samples: vec![],
            mode,
        })
    })
}

fn account(st: &mut State, ctx: CaseCtx, describe: impl Fn() -> String) {
    st.execs += 1;
    st.sub_evals += ctx.sub_evals.max(1);
    if !ctx.classes.is_empty() {
        st.judged += 1;
    }
    for c in &ctx.classes {
        *st.classes.entry(c).or_insert(0) += 1;
    }
    if let Some(fp) = ctx.nontrivial {
        if st.nontrivial.len() < 2_000_000 && st.nontrivial.insert(fp) && st.samples.len() < 12 && st.nontrivial.len() % 97 == 1 {
            st.samples.push(ctx.rendered.clone().unwrap_or_else(&describe));
        }
    }
    let id = st.check.id();
    for f in &ctx.failures {
        if findings::matches(&st.findings, id, &f.sig).is_some() {
            *st.known.entry(f.sig.clone()).or_insert(0) += 1;
        } else {
            eprintln!("GVFUZZ-FAIL property={} signature={} detail={}", id, f.sig, f.detail.chars().take(400).collect::<String>());
            dump_stats();
            std::process::abort();
        }
    }
}

/// returns false when the input is not usable (not UTF-8): libFuzzer is told not to keep it
pub fn fuzz_text(data: &[u8]) -> bool {
    let s = match std::str::from_utf8(data) {
        Ok(s) => s.to_string(),
        Err(_) => return false,
    };
    let mut st = state("text").lock().unwrap();
    let mut ctx = CaseCtx::new(st.samples.len() < 12);
    st.check.run(Tier::Thorough, 0, &Input::Text(s.clone()), &mut ctx);
    if ctx.nontrivial.is_none() && !ctx.classes.is_empty() {
        // text-mode oracles do not always fingerprint: a judged text is its own fingerprint
        ctx.nontrivial = Some(crate::engine::tape::fnv(s.as_bytes()));
    }
    account(&mut st, ctx, || format!("{:?}", s));
    true
}

pub fn fuzz_tape(data: &[u8]) -> bool {
    let mut st = state("tape").lock().unwrap();
    if st.random_phases.is_empty() || data.len() < 2 {
        return false;
    }
    let phase = st.random_phases[data[0] as usize % st.random_phases.len()];
    let tape = data[1..].to_vec();
    let mut ctx = CaseCtx::new(st.samples.len() < 12);
    st.check.run(Tier::Thorough, phase, &Input::Tape(tape.clone()), &mut ctx);
    let check = st.check;
    account(&mut st, ctx, || check.render(Tier::Thorough, phase, &Input::Tape(tape.clone())));
    true
}

/// used by the driver: which phase a saved tape input belongs to
pub fn tape_phase_name(id: &str, first_byte: u8) -> Option<String> {
    let check = checks::find(id)?;
    let phases = check.phases(Tier::Thorough);
    let random: Vec<usize> = phases.iter().enumerate().filter(|(_, p)| matches!(p.kind, PhaseKind::Random { .. })).map(|(i, _)| i).collect();
    if random.is_empty() {
        return None;
    }
    Some(phases[random[first_byte as usize % random.len()]].name.clone())
}
