pub mod core;
pub mod findings;
pub mod fuzzrt;
pub mod orch;
pub mod tape;
pub mod worker;

pub use self::core::*;
pub use self::tape::{Tape, fnv, hex, mix, unhex};
