//! known_findings.json: committed, never written at run time.

use serde_json::Value;

#[derive(Clone, Debug)]
pub struct Finding {
    pub property: String,
    pub signature: String,
    pub what: String,
    pub example: String,
    pub status: String,
}

pub fn root() -> String {
    std::env::var("GV_ROOT").unwrap_or_else(|_| "/verif".to_string())
}

pub fn load() -> Vec<Finding> {
    let path = format!("{}/known_findings.json", root());
    let text = match std::fs::read_to_string(&path) {
        Ok(t) => t,
        Err(_) => return vec![],
    };
    let v: Value = match serde_json::from_str(&text) {
        Ok(v) => v,
        Err(e) => {
            eprintln!("gv: cannot parse {}: {}", path, e);
            std::process::exit(2);
        }
    };
    let mut out = vec![];
    let arr = v.get("findings").and_then(|f| f.as_array()).cloned().or_else(|| v.as_array().cloned()).unwrap_or_default();
    for f in arr {
        let s = |k: &str| f.get(k).and_then(|x| x.as_str()).unwrap_or("").to_string();
        out.push(Finding { property: s("property"), signature: s("signature"), what: s("what"), example: s("example"), status: s("status") });
    }
    out
}

/// An *open* finding of this property whose signature equals `sig` (or is a `prefix*` pattern matching it).
pub fn matches<'a>(findings: &'a [Finding], property: &str, sig: &str) -> Option<&'a Finding> {
    findings.iter().find(|f| {
        f.status == "open"
            && f.property == property
            && (f.signature == sig || (f.signature.ends_with('*') && sig.starts_with(&f.signature[..f.signature.len() - 1])))
    })
}
