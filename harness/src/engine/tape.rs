//! Choice tape: every random generator in the harness is a pure function of a byte slice.
//! Smaller bytes mean simpler choices (monotone mapping), an exhausted tape yields zeros.

pub struct Tape<'a> {
    data: &'a [u8],
    pos: usize,
}

impl<'a> Tape<'a> {
    pub fn new(data: &'a [u8]) -> Self {
        Tape { data, pos: 0 }
    }
    pub fn byte(&mut self) -> u8 {
        let b = self.data.get(self.pos).copied().unwrap_or(0);
        self.pos += 1;
        b
    }
    pub fn exhausted(&self) -> bool {
        self.pos >= self.data.len()
    }
    pub fn consumed(&self) -> usize {
        self.pos.min(self.data.len())
    }
    /// uniform-ish choice in 0..n, monotone in the tape bytes
    pub fn choose(&mut self, n: usize) -> usize {
        if n <= 1 {
            return 0;
        }
        if n <= 256 {
            (self.byte() as usize * n) >> 8
        } else if n <= 65536 {
            let v = ((self.byte() as usize) << 8) | self.byte() as usize;
            (v * n) >> 16
        } else {
            let v = self.u32() as u64;
            ((v * n as u64) >> 32) as usize
        }
    }
    pub fn flag(&mut self) -> bool {
        self.byte() >= 128
    }
    /// true with probability about num/256
    pub fn chance(&mut self, num: u32) -> bool {
        (self.byte() as u32) >= 256 - num.min(256)
    }
    pub fn u16(&mut self) -> u16 {
        ((self.byte() as u16) << 8) | self.byte() as u16
    }
    pub fn u32(&mut self) -> u32 {
        ((self.u16() as u32) << 16) | self.u16() as u32
    }
    pub fn u64(&mut self) -> u64 {
        ((self.u32() as u64) << 32) | self.u32() as u64
    }
    pub fn weighted(&mut self, weights: &[u32]) -> usize {
        let total: u32 = weights.iter().sum();
        if total == 0 {
            return 0;
        }
        let mut v = self.choose(total as usize) as u32;
        for (i, w) in weights.iter().enumerate() {
            if v < *w {
                return i;
            }
            v -= w;
        }
        weights.len() - 1
    }
    pub fn pick<'b, T>(&mut self, items: &'b [T]) -> &'b T {
        &items[self.choose(items.len())]
    }
}

pub fn hex(bytes: &[u8]) -> String {
    let mut s = String::with_capacity(bytes.len() * 2);
    for b in bytes {
        s.push_str(&format!("{:02x}", b));
    }
    s
}

pub fn unhex(s: &str) -> Vec<u8> {
    let b = s.as_bytes();
    let mut out = Vec::with_capacity(b.len() / 2);
    let mut i = 0;
    while i + 1 < b.len() {
        let h = (b[i] as char).to_digit(16).unwrap_or(0) as u8;
        let l = (b[i + 1] as char).to_digit(16).unwrap_or(0) as u8;
        out.push(h << 4 | l);
        i += 2;
    }
    out
}

/// FNV-1a 64 for fingerprints (stable across runs, unlike DefaultHasher with random keys — we never use RandomState)
pub fn fnv(bytes: &[u8]) -> u64 {
    let mut h: u64 = 0xcbf29ce484222325;
    for b in bytes {
        h ^= *b as u64;
        h = h.wrapping_mul(0x100000001b3);
    }
    h
}

pub fn mix(a: u64, b: u64) -> u64 {
    let mut x = a ^ b.wrapping_mul(0x9E3779B97F4A7C15);
    x ^= x >> 30;
    x = x.wrapping_mul(0xBF58476D1CE4E5B9);
    x ^= x >> 27;
    x = x.wrapping_mul(0x94D049BB133111EB);
    x ^= x >> 31;
    x
}
