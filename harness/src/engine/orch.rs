//! Orchestrator: never runs code under test; spawns workers, merges results, writes evidence and replays.

use super::core::*;
use super::findings;
use super::tape::fnv;
use super::worker::{REPLAY_PHASE, read_crumb, regenerate_tape};
use serde_json::{Value, json};
use std::collections::{BTreeMap, HashSet};
use std::io::{BufRead, BufReader};
use std::process::{Command, Stdio};
use std::sync::{Arc, Mutex};
use std::time::{Duration, Instant};

#[derive(Default)]
struct Merged {
    cases: u64,
    evals: u64,
    nontrivial_cases: u64,
    classes: BTreeMap<String, u64>,
    per_phase: BTreeMap<String, u64>,
    known: BTreeMap<String, (u64, String)>,
    samples: Vec<Value>,
    fp_files: Vec<String>,
    fp_capped: bool,
    viols: Vec<Value>,
    hangs: Vec<Value>,
    harness_errors: Vec<String>,
    respawns: u64,
}

fn list_replays(id: &str) -> Vec<String> {
    let mut out = vec![];
    for dir in ["regress", "replays"] {
        let d = format!("{}/{}/{}", findings::root(), dir, id);
        if let Ok(rd) = std::fs::read_dir(&d) {
            let mut v: Vec<String> = rd.filter_map(|e| e.ok()).map(|e| e.path().to_string_lossy().to_string()).filter(|p| p.ends_with(".json")).collect();
            v.sort();
            out.extend(v);
        }
    }
    out
}

pub fn seed_from_env() -> u64 {
    std::env::var("VERIF_SEED").ok().and_then(|s| s.trim().parse::<i64>().ok()).map(|v| v as u64).unwrap_or(0)
}

pub struct RunOpts {
    pub tier: Tier,
    pub replay_only: Option<String>,
}

pub fn run_check(check: &'static dyn Check, opts: RunOpts) -> i32 {
    let t0 = Instant::now();
    let id = check.id().to_string();
    let tier = opts.tier;
    let seed = seed_from_env();
    let jobs: u64 = std::env::var("GV_JOBS").ok().and_then(|s| s.parse().ok()).unwrap_or_else(|| std::thread::available_parallelism().map(|n| n.get() as u64).unwrap_or(8).min(16));
    let overall_deadline = Duration::from_secs(std::env::var("GV_DEADLINE_S").ok().and_then(|s| s.parse().ok()).unwrap_or(tier.pick(1500, 6 * 3600)));
    let workdir = format!("{}/harness/target/work/{}.{}", findings::root(), id, std::process::id());
    let _ = std::fs::create_dir_all(&workdir);
    let exe = std::env::current_exe().expect("current exe");
    let phases = check.phases(tier);
    let all_findings = findings::load();

    let replay_files: Vec<String> = match &opts.replay_only {
        Some(p) => vec![p.clone()],
        None => list_replays(&id),
    };
    let nshards = if opts.replay_only.is_some() { 1 } else { jobs.max(1) };

    let merged = Arc::new(Mutex::new(Merged::default()));
    let mut handles = vec![];
    for shard in 0..nshards {
        let merged = merged.clone();
        let exe = exe.clone();
        let id = id.clone();
        let workdir = workdir.clone();
        let replay_files = replay_files.clone();
        let replay_only = opts.replay_only.is_some();
        let phases = phases.clone();
        handles.push(std::thread::spawn(move || {
            let mut resume: Option<(u64, u64)> = None;
            let mut respawns = 0u64;
            loop {
                if t0.elapsed() > overall_deadline {
                    merged.lock().unwrap().harness_errors.push("overall deadline reached".to_string());
                    return;
                }
                let mut cmd = Command::new(&exe);
                cmd.arg("worker").arg(&id).arg(tier.name()).arg(shard.to_string()).arg(nshards.to_string()).arg(seed.to_string()).arg(&workdir);
                match resume {
                    Some((p, i)) => {
                        cmd.arg(format!("{}:{}", p, i));
                    }
                    None => {
                        cmd.arg("-");
                    }
                }
                cmd.arg(if replay_only { "replay-only" } else { "full" });
                for f in &replay_files {
                    cmd.arg(f);
                }
                cmd.stdin(Stdio::null()).stdout(Stdio::piped()).stderr(Stdio::piped());
                let mut child = match cmd.spawn() {
                    Ok(c) => c,
                    Err(e) => {
                        merged.lock().unwrap().harness_errors.push(format!("spawn failed: {}", e));
                        return;
                    }
                };
                let stdout = child.stdout.take().unwrap();
                let stderr = child.stderr.take().unwrap();
                let errh = std::thread::spawn(move || {
                    let mut tail = String::new();
                    for l in BufReader::new(stderr).lines().map_while(Result::ok) {
                        if tail.len() < 4000 {
                            tail.push_str(&l);
                            tail.push('\n');
                        }
                    }
                    tail
                });
                let mut done = false;
                let mut hang: Option<Value> = None;
                for line in BufReader::new(stdout).lines().map_while(Result::ok) {
                    let v: Value = match serde_json::from_str(&line) {
                        Ok(v) => v,
                        Err(_) => continue,
                    };
                    let mut m = merged.lock().unwrap();
                    match v.get("t").and_then(|t| t.as_str()) {
                        Some("viol") => m.viols.push(v),
                        Some("hang") => hang = Some(v),
                        Some("harness_panic") => m.harness_errors.push(format!("harness panic: {}", v)),
                        Some("done") => {
                            done = true;
                            m.cases += v["cases"].as_u64().unwrap_or(0);
                            m.evals += v["evals"].as_u64().unwrap_or(0);
                            m.nontrivial_cases += v["nontrivial_cases"].as_u64().unwrap_or(0);
                            if let Some(o) = v["classes"].as_object() {
                                for (k, c) in o {
                                    *m.classes.entry(k.clone()).or_insert(0) += c.as_u64().unwrap_or(0);
                                }
                            }
                            if let Some(o) = v["per_phase"].as_object() {
                                for (k, c) in o {
                                    *m.per_phase.entry(k.clone()).or_insert(0) += c.as_u64().unwrap_or(0);
                                }
                            }
                            if let Some(o) = v["known"].as_object() {
                                for (k, c) in o {
                                    let e = m.known.entry(k.clone()).or_insert((0, String::new()));
                                    e.0 += c["count"].as_u64().unwrap_or(0);
                                    if e.1.is_empty() {
                                        e.1 = c["example"].as_str().unwrap_or("").to_string();
                                    }
                                }
                            }
                            if let Some(a) = v["samples"].as_array() {
                                m.samples.extend(a.iter().cloned());
                            }
                            if let Some(f) = v["fp_file"].as_str() {
                                m.fp_files.push(f.to_string());
                            }
                            if v["fp_capped"].as_bool() == Some(true) {
                                m.fp_capped = true;
                            }
                        }
                        _ => {}
                    }
                }
                let status = child.wait();
                let err_tail = errh.join().unwrap_or_default();
                if done {
                    return;
                }
                // worker died: hang (watchdog) or abort (signal)
                let code = status.as_ref().ok().and_then(|s| s.code());
                if code == Some(4) {
                    return; // harness panic already recorded
                }
                let (kind, phase, index, stage) = match hang {
                    Some(h) => ("hang".to_string(), h["phase"].as_u64().unwrap_or(0), h["index"].as_u64().unwrap_or(0), h["stage"].as_str().unwrap_or("none").to_string()),
                    None => match read_crumb(&format!("{}/crumb.{}", workdir, shard)) {
                        Some((p, i)) => {
                            let k = if err_tail.contains("overflowed its stack") {
                                "stack-overflow"
                            } else if err_tail.contains("memory allocation") {
                                "oom"
                            } else {
                                "abort"
                            };
                            (k.to_string(), p, i, "unknown".to_string())
                        }
                        None => {
                            merged.lock().unwrap().harness_errors.push(format!("worker {} died without breadcrumb: {:?} {}", shard, status, err_tail));
                            return;
                        }
                    },
                };
                {
                    let mut m = merged.lock().unwrap();
                    m.respawns += 1;
                    let (pname, tape) = if phase == REPLAY_PHASE {
                        ("replays".to_string(), None)
                    } else {
                        let ph = &phases[phase as usize];
                        (ph.name.clone(), regenerate_tape(seed, &id, phase, ph, index))
                    };
                    m.hangs.push(json!({"kind":kind,"phase":phase,"phase_name":pname,"index":index,"stage":stage,
                        "tape":tape.map(|t| super::tape::hex(&t)),"stderr":err_tail.chars().take(400).collect::<String>()}));
                }
                respawns += 1;
                if respawns > 40 {
                    merged.lock().unwrap().harness_errors.push(format!("worker {} respawned too often", shard));
                    return;
                }
                resume = Some((phase, index));
            }
        }));
    }
    for h in handles {
        let _ = h.join();
    }
    let mut m = std::mem::take(&mut *merged.lock().unwrap());

    // ---- hangs / aborts become failures through the check's policy
    let strict = opts.replay_only.is_some();
    let mut hang_viols = vec![];
    // a watchdog hit is only believed when it reproduces in a fresh, otherwise idle worker with a longer deadline
    let mut unconfirmed = 0u64;
    if opts.replay_only.is_none() {
        let mut kept = vec![];
        for (n, h) in m.hangs.iter().enumerate() {
            if h["kind"].as_str() != Some("hang") || h["phase"].as_u64() == Some(REPLAY_PHASE) {
                kept.push(h.clone());
                continue;
            }
            let cdir = format!("{}/confirm{}", workdir, n);
            let _ = std::fs::create_dir_all(&cdir);
            let mut rec = json!({"property": id, "phase_name": h["phase_name"], "tier": tier.name()});
            if h["tape"].is_string() {
                rec["tape_hex"] = h["tape"].clone();
            } else {
                rec["index"] = h["index"].clone();
            }
            let rfile = format!("{}/case.json", cdir);
            let _ = std::fs::write(&rfile, rec.to_string());
            let out = Command::new(&exe)
                .arg("worker").arg(&id).arg(tier.name()).arg("0").arg("1").arg(seed.to_string()).arg(&cdir).arg("-").arg("confirm").arg(&rfile)
                .stdin(Stdio::null()).stderr(Stdio::null()).output();
            let finished = match &out {
                Ok(o) => String::from_utf8_lossy(&o.stdout).lines().any(|l| l.contains("\"t\":\"done\"")),
                Err(_) => false,
            };
            if finished {
                unconfirmed += 1;
                // the case completes when run alone: take over whatever it reports
                if let Ok(o) = &out {
                    for l in String::from_utf8_lossy(&o.stdout).lines() {
                        if let Ok(v) = serde_json::from_str::<Value>(l) {
                            if v["t"].as_str() == Some("viol") {
                                let mut v = v.clone();
                                v["phase"] = h["phase"].clone();
                                v["phase_name"] = h["phase_name"].clone();
                                v["index"] = h["index"].clone();
                                m.viols.push(v);
                            }
                        }
                    }
                }
            } else {
                kept.push(h.clone());
            }
        }
        m.hangs = kept;
    }
    for h in &m.hangs {
        let phase = h["phase"].as_u64().unwrap_or(0);
        let index = h["index"].as_u64().unwrap_or(0);
        let kind = h["kind"].as_str().unwrap_or("hang");
        let stage = h["stage"].as_str().unwrap_or("none");
        if kind == "oom" {
            m.harness_errors.push(format!("worker ran out of memory at {}", h));
            continue;
        }
        let mut sig = match check.hang_signature(stage, kind) {
            Some(s) => s,
            None => continue,
        };
        if kind != "hang" && phase != REPLAY_PHASE {
            let input = match h["tape"].as_str() {
                Some(t) => Input::Tape(super::tape::unhex(t)),
                None => Input::Index(index),
            };
            if let Some(label) = check.abort_label(tier, phase as usize, &input) {
                sig = format!("{}@{}", kind, label);
            }
        }
        let rendered = if phase == REPLAY_PHASE {
            replay_files.get(index as usize).cloned().unwrap_or_default()
        } else {
            let input = match h["tape"].as_str() {
                Some(t) => Input::Tape(super::tape::unhex(t)),
                None => Input::Index(index),
            };
            check.render(tier, phase as usize, &input)
        };
        if !strict {
            if let Some(k) = findings::matches(&all_findings, &id, &sig) {
                let e = m.known.entry(k.signature.clone()).or_insert((0, String::new()));
                e.0 += 1;
                if e.1.is_empty() {
                    e.1 = rendered.clone();
                }
                continue;
            }
        }
        hang_viols.push(json!({"t":"viol","phase":phase,"phase_name":h["phase_name"],"index":index,"tape":h["tape"],"sig":sig,
            "detail":format!("worker {} during stage {}: {}", kind, stage, h["stderr"].as_str().unwrap_or("")),"rendered":rendered,"shrunk":false}));
    }
    m.viols.extend(hang_viols);

    // ---- distinct non-trivial count
    let mut fps: HashSet<u64> = HashSet::new();
    for f in &m.fp_files {
        if let Ok(b) = std::fs::read(f) {
            for c in b.chunks_exact(8) {
                fps.insert(u64::from_le_bytes(c.try_into().unwrap()));
            }
        }
    }
    let distinct = fps.len() as u64;
    let _ = std::fs::remove_dir_all(&workdir);

    // ---- violations: dedupe by signature, write replay files
    let mut seen = HashSet::new();
    let mut viol_lines = vec![];
    // smallest (phase, index) first so that the reported instance of a signature is the smallest one found
    m.viols.sort_by_key(|v| (v["phase"].as_u64().unwrap_or(0), v["rendered"].as_str().map(|s| s.len()).unwrap_or(0), v["index"].as_u64().unwrap_or(0)));
    for v in &m.viols {
        let sig = v["sig"].as_str().unwrap_or("?").to_string();
        if !seen.insert(sig.clone()) {
            continue;
        }
        let dir = format!("{}/replays/{}", findings::root(), id);
        let _ = std::fs::create_dir_all(&dir);
        let key = format!("{}|{}|{}", sig, v["tape"], v["index"]);
        let clean: String = sig.chars().map(|c| if c.is_ascii_alphanumeric() { c } else { '_' }).take(60).collect();
        let path = format!("{}/{}-{:08x}.json", dir, clean, fnv(key.as_bytes()) as u32);
        let mut rec = json!({
            "property": id, "phase_name": v["phase_name"], "tier": tier.name(), "seed": seed,
            "signature": sig, "detail": v["detail"], "rendered": v["rendered"], "shrunk": v["shrunk"],
        });
        if v["text"].is_string() {
            rec["kind"] = json!("text");
            rec["text"] = v["text"].clone();
        } else if v["tape"].is_string() {
            rec["kind"] = json!("tape");
            rec["tape_hex"] = v["tape"].clone();
        } else {
            rec["kind"] = json!("index");
            rec["index"] = v["index"].clone();
        }
        if opts.replay_only.is_none() {
            let _ = std::fs::write(&path, serde_json::to_string_pretty(&rec).unwrap());
        }
        let shown = if opts.replay_only.is_some() { opts.replay_only.clone().unwrap() } else { path };
        viol_lines.push((sig, shown, v["rendered"].as_str().unwrap_or("").to_string(), v["detail"].as_str().unwrap_or("").to_string()));
    }

    // ---- report
    for (sig, (count, example)) in &m.known {
        let what = all_findings.iter().find(|f| &f.signature == sig && f.property == id).map(|f| f.what.clone()).unwrap_or_default();
        println!("KNOWN-FINDING: property={} {} [{}; hit {} times; e.g. {}]", id, what, sig, count, one_line(example, 120));
    }
    for (sig, path, rendered, detail) in &viol_lines {
        println!("VIOLATION property={} replay={}", id, path);
        println!("  signature: {}", sig);
        println!("  case: {}", one_line(rendered, 400));
        println!("  detail: {}", one_line(detail, 600));
    }
    for e in &m.harness_errors {
        eprintln!("gv: INCONCLUSIVE: {}", e);
    }

    // ---- evidence
    if opts.replay_only.is_none() {
        let exhaustive_all = phases.iter().all(|p| matches!(p.kind, PhaseKind::Exhaustive { .. })) && m.harness_errors.is_empty();
        let mut samples: Vec<Value> = vec![];
        // prefer non-trivial samples, spread over phases
        let mut by_phase: BTreeMap<String, Vec<&Value>> = BTreeMap::new();
        for s in &m.samples {
            by_phase.entry(s["phase"].as_str().unwrap_or("").to_string()).or_default().push(s);
        }
        for (_p, list) in &by_phase {
            let mut nt: Vec<&&Value> = list.iter().filter(|s| s["nontrivial"].as_bool() == Some(true)).collect();
            if nt.is_empty() {
                nt = list.iter().collect();
            }
            let step = (nt.len() / 4).max(1);
            for s in nt.iter().step_by(step).take(4) {
                samples.push((***s).clone());
            }
        }
        let phase_desc: Vec<Value> = phases
            .iter()
            .map(|p| match p.kind {
                PhaseKind::Exhaustive { count } => json!({"name":p.name,"kind":"exhaustive","space":count,"run":m.per_phase.get(&p.name).copied().unwrap_or(0)}),
                PhaseKind::Random { cases, max_tape, .. } => json!({"name":p.name,"kind":"random","cases":cases,"max_tape_bytes":max_tape,"run":m.per_phase.get(&p.name).copied().unwrap_or(0)}),
            })
            .collect();
        let known_json: BTreeMap<String, Value> = m.known.iter().map(|(k, v)| (k.clone(), json!({"count":v.0,"example":v.1}))).collect();
        let mut coverage = json!({
            "evaluations": m.evals,
            "cases": m.cases,
            "distinct_nontrivial": distinct,
            "nontrivial_cases_counted": m.nontrivial_cases,
            "distinct_count_is_lower_bound": m.fp_capped,
            "rule": check.rule(),
            "samples": samples,
            "exhaustive": exhaustive_all,
            "phases": phase_desc,
            "class_histogram": m.classes,
            "excluded_known": known_json,
            "replayed_files": m.per_phase.get("replays").copied().unwrap_or(0),
            "worker_respawns_after_hang_or_abort": m.respawns,
            "watchdog_hits_not_reproduced_when_rerun_alone": unconfirmed,
            "inconclusive": m.harness_errors,
            "workers": nshards,
        });
        for (k, v) in check.extra_coverage() {
            coverage[k] = v;
        }
        let ev = json!({
            "property_id": id,
            "tier": tier.name(),
            "seed": seed as i64,
            "level": "exploration",
            "coverage": coverage,
            "assumptions": check.assumptions(),
            "wall_s": t0.elapsed().as_secs_f64(),
            "violations": viol_lines.len(),
        });
        let dir = format!("{}/evidence", findings::root());
        let _ = std::fs::create_dir_all(&dir);
        let _ = std::fs::write(format!("{}/{}.json", dir, id), serde_json::to_string_pretty(&ev).unwrap());
        println!(
            "gv: {} {} seed={} cases={} evaluations={} distinct_nontrivial={} known_hits={} violations={} wall={:.1}s",
            id,
            tier.name(),
            seed,
            m.cases,
            m.evals,
            distinct,
            m.known.values().map(|v| v.0).sum::<u64>(),
            viol_lines.len(),
            t0.elapsed().as_secs_f64()
        );
    }
    if !viol_lines.is_empty() {
        return 1;
    }
    if !m.harness_errors.is_empty() {
        return 2;
    }
    0
}

fn one_line(s: &str, max: usize) -> String {
    let mut o = String::new();
    for c in s.chars() {
        if o.len() >= max {
            o.push('…');
            break;
        }
        match c {
            '\n' => o.push_str("\\n"),
            '\r' => o.push_str("\\r"),
            '\t' => o.push_str("\\t"),
            c if (c as u32) < 32 => o.push_str(&format!("\\x{:02x}", c as u32)),
            c => o.push(c),
        }
    }
    o
}
