//! Check trait, per-case context, panic guard.

use std::cell::RefCell;
use std::panic::{self, AssertUnwindSafe};
use std::sync::atomic::{AtomicU32, Ordering};

#[derive(Clone, Copy, PartialEq, Eq, Debug)]
pub enum Tier {
    Quick,
    Thorough,
}

impl Tier {
    pub fn name(self) -> &'static str {
        match self {
            Tier::Quick => "quick",
            Tier::Thorough => "thorough",
        }
    }
    pub fn pick<T>(self, q: T, t: T) -> T {
        match self {
            Tier::Quick => q,
            Tier::Thorough => t,
        }
    }
}

#[derive(Clone, Debug)]
pub enum PhaseKind {
    /// indices 0..count enumerate a finite space completely
    Exhaustive { count: u64 },
    /// `cases` random tapes of at most `max_tape` bytes
    Random { cases: u64, min_tape: usize, max_tape: usize },
}

#[derive(Clone, Debug)]
pub struct Phase {
    pub name: String,
    pub kind: PhaseKind,
    /// cases per shard chunk
    pub chunk: u64,
    /// per-case deadline in ms (watchdog)
    pub deadline_ms: u64,
}

impl Phase {
    pub fn exhaustive(name: &str, count: u64) -> Phase {
        Phase { name: name.to_string(), kind: PhaseKind::Exhaustive { count }, chunk: 512, deadline_ms: 5000 }
    }
    pub fn random(name: &str, cases: u64, max_tape: usize) -> Phase {
        Phase { name: name.to_string(), kind: PhaseKind::Random { cases, min_tape: max_tape / 4, max_tape }, chunk: 256, deadline_ms: 5000 }
    }
    pub fn with_chunk(mut self, chunk: u64) -> Phase {
        self.chunk = chunk.max(1);
        self
    }
    pub fn with_min_tape(mut self, min: usize) -> Phase {
        if let PhaseKind::Random { ref mut min_tape, max_tape, .. } = self.kind {
            *min_tape = min.min(max_tape);
        }
        self
    }
    pub fn with_deadline_ms(mut self, ms: u64) -> Phase {
        self.deadline_ms = ms;
        self
    }
    pub fn count(&self) -> u64 {
        match self.kind {
            PhaseKind::Exhaustive { count } => count,
            PhaseKind::Random { cases, .. } => cases,
        }
    }
}

#[derive(Clone, Debug)]
pub enum Input {
    Index(u64),
    Tape(Vec<u8>),
    /// hand-written regression case (replay files with "kind":"text"); run against phase 0 of the check
    Text(String),
}

#[derive(Clone, Debug)]
pub struct Failure {
    pub sig: String,
    pub detail: String,
}

/// What a case reports.
pub struct CaseCtx {
    pub want_render: bool,
    pub strict: bool,
    pub classes: Vec<&'static str>,
    pub nontrivial: Option<u64>,
    pub failures: Vec<Failure>,
    pub rendered: Option<String>,
    pub sub_evals: u64,
}

impl CaseCtx {
    pub fn new(want_render: bool) -> Self {
        CaseCtx { want_render, strict: false, classes: Vec::new(), nontrivial: None, failures: Vec::new(), rendered: None, sub_evals: 0 }
    }
    pub fn class(&mut self, c: &'static str) {
        if !self.classes.contains(&c) {
            self.classes.push(c);
        }
    }
    /// mark the case non-trivial, with a fingerprint that identifies it among all cases of the check
    pub fn nontrivial(&mut self, fingerprint: u64) {
        self.nontrivial = Some(fingerprint);
    }
    pub fn fail(&mut self, sig: impl Into<String>, detail: impl Into<String>) {
        let sig = sig.into();
        if self.failures.iter().any(|f| f.sig == sig) {
            return;
        }
        self.failures.push(Failure { sig, detail: detail.into() });
    }
    pub fn render(&mut self, f: impl FnOnce() -> String) {
        if self.want_render && self.rendered.is_none() {
            self.rendered = Some(f());
        }
    }
    pub fn failed(&self) -> bool {
        !self.failures.is_empty()
    }
}

pub trait Check: Sync {
    fn id(&self) -> &'static str;
    fn rule(&self) -> String;
    fn assumptions(&self) -> Vec<String> {
        vec![]
    }
    fn phases(&self, tier: Tier) -> Vec<Phase>;
    /// Run one case. Must be a pure function of (phase, input) and the code under test.
    fn run(&self, tier: Tier, phase: usize, input: &Input, ctx: &mut CaseCtx);
    /// Render a case without running code under test (used for hang reports); default runs nothing.
    fn render(&self, _tier: Tier, _phase: usize, input: &Input) -> String {
        format!("{:?}", input)
    }
    /// signature to use when the watchdog kills a worker during this case at `stage`
    fn hang_signature(&self, stage: &str, kind: &str) -> Option<String> {
        Some(format!("{}@{}", kind, stage))
    }
    /// a label for the case a worker died in (abort, stack overflow), to make the signature name the kind of case
    fn abort_label(&self, _tier: Tier, _phase: usize, _input: &Input) -> Option<String> {
        None
    }
    /// true if every phase being Exhaustive means the whole check is exhaustive
    fn extra_coverage(&self) -> Vec<(String, serde_json::Value)> {
        vec![]
    }
}

// ---------------------------------------------------------------------------------------------
// stage breadcrumb (global; workers run cases on one thread)

static STAGE: AtomicU32 = AtomicU32::new(0);
pub const STAGES: &[&str] = &[
    "none", "lex", "parse", "build", "run", "op", "store", "readback", "optimize", "clone", "model", "other", "build2", "convert",
];

pub fn set_stage(name: &'static str) {
    let idx = STAGES.iter().position(|s| *s == name).unwrap_or(11) as u32;
    STAGE.store(idx, Ordering::Relaxed);
}
pub fn current_stage() -> &'static str {
    STAGES[STAGE.load(Ordering::Relaxed) as usize % STAGES.len()]
}

// ---------------------------------------------------------------------------------------------
// panic guard

thread_local! {
    static LAST_PANIC: RefCell<Option<(String, String)>> = const { RefCell::new(None) };
}

pub fn install_panic_hook() {
    panic::set_hook(Box::new(|info| {
        let loc = info.location().map(|l| format!("{}:{}", short_path(l.file()), l.line())).unwrap_or_else(|| "?".to_string());
        let msg = if let Some(s) = info.payload().downcast_ref::<&str>() {
            s.to_string()
        } else if let Some(s) = info.payload().downcast_ref::<String>() {
            s.clone()
        } else {
            "panic".to_string()
        };
        LAST_PANIC.with(|p| *p.borrow_mut() = Some((loc, msg)));
    }));
}

fn short_path(p: &str) -> String {
    // /repo/compiler/src/build/build.rs -> compiler/src/build/build.rs ; registry/rustlib paths keep the tail
    if let Some(rest) = p.strip_prefix("/repo/") {
        return rest.to_string();
    }
    if let Some(i) = p.find("/src/") {
        let head = &p[..i];
        let krate = head.rsplit('/').next().unwrap_or("");
        return format!("{}{}", krate, &p[i..]);
    }
    p.to_string()
}

#[derive(Clone, Debug)]
pub struct Panicked {
    pub loc: String,
    pub msg: String,
}

impl Panicked {
    /// the panic site lies in one of the repository's crates (paths are shortened to `<crate dir>/src/...`)
    pub fn in_code_under_test(&self) -> bool {
        ["data/src/", "compiler/src/", "runtime/src/", "traits/src/", "garnish/src/"].iter().any(|p| self.loc.starts_with(p))
    }
    pub fn in_repo(&self) -> bool {
        !self.loc.starts_with("harness/") && !self.loc.starts_with("src/") && !self.loc.starts_with("gv")
    }
}

/// Run code under test; a panic becomes a value.
pub fn guard<T>(stage: &'static str, f: impl FnOnce() -> T) -> Result<T, Panicked> {
    set_stage(stage);
    let r = panic::catch_unwind(AssertUnwindSafe(f));
    match r {
        Ok(v) => Ok(v),
        Err(_) => {
            let (loc, msg) = LAST_PANIC.with(|p| p.borrow_mut().take()).unwrap_or(("?".to_string(), "panic".to_string()));
            Err(Panicked { loc, msg })
        }
    }
}
