//! Worker process: runs the cases of one shard in-process, under a watchdog and an address-space limit.

use super::core::*;
use super::findings::{self, Finding};
use super::tape::{hex, mix, unhex};
use proptest::prelude::*;
use proptest::strategy::ValueTree;
use proptest::test_runner::{Config, RngAlgorithm, RngSeed, TestRng, TestRunner};
use serde_json::{Value, json};
use std::collections::{BTreeMap, HashSet};
use std::io::Write;
use std::sync::atomic::{AtomicU64, Ordering};
use std::time::{Duration, Instant};

static CASE_SEQ: AtomicU64 = AtomicU64::new(0);
static CASE_DEADLINE_MS: AtomicU64 = AtomicU64::new(5000);
static CUR_PHASE: AtomicU64 = AtomicU64::new(0);
static CUR_INDEX: AtomicU64 = AtomicU64::new(0);

pub const REPLAY_PHASE: u64 = u32::MAX as u64;

pub struct WorkerArgs {
    pub id: String,
    pub tier: Tier,
    pub shard: u64,
    pub nshards: u64,
    pub seed: u64,
    /// skip everything up to and including (phase, index)
    pub resume: Option<(u64, u64)>,
    pub workdir: String,
    pub replay_files: Vec<String>,
    pub replay_only: bool,
    pub strict: bool,
}

fn emit(v: Value) {
    let out = std::io::stdout();
    let mut l = out.lock();
    let _ = writeln!(l, "{}", v);
    let _ = l.flush();
}

fn set_limits() {
    unsafe {
        let lim = libc::rlimit { rlim_cur: 6 << 30, rlim_max: 6 << 30 };
        libc::setrlimit(libc::RLIMIT_AS, &lim);
        let core = libc::rlimit { rlim_cur: 0, rlim_max: 0 };
        libc::setrlimit(libc::RLIMIT_CORE, &core);
    }
}

fn process_cpu_ms() -> u64 {
    let mut ts = libc::timespec { tv_sec: 0, tv_nsec: 0 };
    unsafe { libc::clock_gettime(libc::CLOCK_PROCESS_CPUTIME_ID, &mut ts) };
    ts.tv_sec as u64 * 1000 + ts.tv_nsec as u64 / 1_000_000
}

/// The deadline of a case is measured in CPU time of this (single-threaded) worker, so that a loaded machine cannot
/// turn a slow case into a reported hang; a wall-clock backstop of 12x the deadline catches a worker that blocks.
fn start_watchdog() {
    std::thread::spawn(|| {
        let mut last_seq = u64::MAX;
        let mut since = Instant::now();
        let mut cpu_since = process_cpu_ms();
        loop {
            std::thread::sleep(Duration::from_millis(50));
            let seq = CASE_SEQ.load(Ordering::Relaxed);
            if seq != last_seq {
                last_seq = seq;
                since = Instant::now();
                cpu_since = process_cpu_ms();
                continue;
            }
            let dl = CASE_DEADLINE_MS.load(Ordering::Relaxed);
            if dl > 0 && seq != 0 && (process_cpu_ms().saturating_sub(cpu_since) > dl || since.elapsed() > Duration::from_millis(dl * 12)) {
                emit(json!({"t":"hang","phase":CUR_PHASE.load(Ordering::Relaxed),"index":CUR_INDEX.load(Ordering::Relaxed),"stage":current_stage()}));
                unsafe { libc::_exit(3) };
            }
        }
    });
}

fn begin_case(phase: u64, index: u64, deadline_ms: u64, crumb: &mut Crumb, tape: Option<&[u8]>) {
    CUR_PHASE.store(phase, Ordering::Relaxed);
    CUR_INDEX.store(index, Ordering::Relaxed);
    CASE_DEADLINE_MS.store(deadline_ms, Ordering::Relaxed);
    crumb.write(phase, index, tape);
    set_stage("none");
    CASE_SEQ.fetch_add(1, Ordering::Relaxed);
}

/// Breadcrumb file: survives SIGSEGV/SIGABRT of the worker so the orchestrator can name the fatal case.
pub struct Crumb {
    file: std::fs::File,
}
impl Crumb {
    fn open(path: &str) -> Crumb {
        let file = std::fs::OpenOptions::new().create(true).write(true).truncate(true).open(path).expect("crumb file");
        Crumb { file }
    }
    fn write(&mut self, phase: u64, index: u64, _tape: Option<&[u8]>) {
        use std::os::unix::fs::FileExt;
        let mut buf = [0u8; 16];
        buf[..8].copy_from_slice(&phase.to_le_bytes());
        buf[8..].copy_from_slice(&index.to_le_bytes());
        let _ = self.file.write_all_at(&buf, 0);
    }
}
pub fn read_crumb(path: &str) -> Option<(u64, u64)> {
    let b = std::fs::read(path).ok()?;
    if b.len() < 16 {
        return None;
    }
    Some((u64::from_le_bytes(b[..8].try_into().ok()?), u64::from_le_bytes(b[8..16].try_into().ok()?)))
}

pub fn batch_rng(seed: u64, id: &str, phase: u64, batch: u64) -> TestRunner {
    let mut s = mix(seed, super::tape::fnv(id.as_bytes()));
    s = mix(s, phase);
    s = mix(s, batch);
    let mut bytes = [0u8; 32];
    for i in 0..4 {
        s = mix(s, i as u64 + 1);
        bytes[i * 8..i * 8 + 8].copy_from_slice(&s.to_le_bytes());
    }
    let config = Config { failure_persistence: None, rng_seed: RngSeed::Fixed(s), ..Config::default() };
    TestRunner::new_with_rng(config, TestRng::from_seed(RngAlgorithm::ChaCha, &bytes))
}

/// regenerate the tape of random case `index` of `phase` (used by the orchestrator for hang reports)
pub fn regenerate_tape(seed: u64, id: &str, phase_idx: u64, phase: &Phase, index: u64) -> Option<Vec<u8>> {
    let (min_tape, max_tape) = match phase.kind {
        PhaseKind::Random { min_tape, max_tape, .. } => (min_tape, max_tape),
        _ => return None,
    };
    let batch = index / phase.chunk;
    let mut runner = batch_rng(seed, id, phase_idx, batch);
    let strat = proptest::collection::vec(any::<u8>(), min_tape..=max_tape);
    let mut i = batch * phase.chunk;
    loop {
        let tree = strat.new_tree(&mut runner).ok()?;
        if i == index {
            return Some(tree.current());
        }
        i += 1;
    }
}

struct Stats {
    cases: u64,
    evals: u64,
    classes: BTreeMap<String, u64>,
    fps: HashSet<u64>,
    fp_capped: bool,
    nontrivial_cases: u64,
    known: BTreeMap<String, (u64, String)>,
    samples: Vec<Value>,
    viol_sigs: Vec<String>,
    per_phase: BTreeMap<String, u64>,
}

const FP_CAP: usize = 3_000_000;

pub fn run_worker(check: &dyn Check, args: WorkerArgs) -> i32 {
    set_limits();
    install_panic_hook();
    start_watchdog();
    let findings = findings::load();
    let mut crumb = Crumb::open(&format!("{}/crumb.{}", args.workdir, args.shard));
    let phases = check.phases(args.tier);
    let mut st = Stats {
        cases: 0,
        evals: 0,
        classes: BTreeMap::new(),
        fps: HashSet::new(),
        fp_capped: false,
        nontrivial_cases: 0,
        known: BTreeMap::new(),
        samples: vec![],
        viol_sigs: vec![],
        per_phase: BTreeMap::new(),
    };

    // ---- replay corpus (shard 0 only, or replay-only mode)
    if args.shard == 0 || args.replay_only {
        for (i, path) in args.replay_files.iter().enumerate() {
            if let Some((rp, ri)) = args.resume {
                if rp == REPLAY_PHASE && (i as u64) <= ri {
                    continue;
                }
            }
            let (tier, pidx, input) = match load_replay(check, path) {
                Some(x) => x,
                None => {
                    eprintln!("gv: replay file {} not usable (phase missing?), skipped", path);
                    continue;
                }
            };
            let ph = check.phases(tier);
            begin_case(REPLAY_PHASE, i as u64, ph[pidx].deadline_ms.max(10000), &mut crumb, None);
            let mut ctx = CaseCtx::new(true);
            ctx.strict = args.strict;
            let r = guard("other", || check.run(tier, pidx, &input, &mut ctx));
            if let Err(p) = r {
                if p.in_code_under_test() {
                    // an observation the oracle makes (a read-back, a getter) unwound inside the repository's code
                    ctx.fail(format!("panic-in-code-under-test@{}", p.loc), format!("{} panicked while the check observed the case: {}", p.loc, p.msg.trim()));
                } else {
                    emit(json!({"t":"harness_panic","loc":p.loc,"msg":p.msg,"where":format!("replay {}", path)}));
                    return 4;
                }
            }
            account(check, &findings, &mut st, &ctx, args.strict, REPLAY_PHASE, i as u64, &input, &format!("replay:{}", path), None, Some((tier, pidx)));
            *st.per_phase.entry("replays".to_string()).or_insert(0) += 1;
        }
    }
    if args.replay_only {
        finish(&args, st);
        return 0;
    }

    // ---- phases
    for (pidx, phase) in phases.iter().enumerate() {
        let pidx64 = pidx as u64;
        let total = phase.count();
        let nchunks = total.div_ceil(phase.chunk);
        let mut chunk = args.shard;
        while chunk < nchunks {
            let lo = chunk * phase.chunk;
            let hi = ((chunk + 1) * phase.chunk).min(total);
            let skip_upto: Option<u64> = match args.resume {
                Some((rp, ri)) if rp != REPLAY_PHASE && (rp > pidx64 || (rp == pidx64 && ri >= hi - 1)) => {
                    chunk += args.nshards;
                    continue;
                }
                Some((rp, ri)) if rp == pidx64 && ri >= lo => Some(ri),
                _ => None,
            };
            match phase.kind {
                PhaseKind::Exhaustive { .. } => {
                    for index in lo..hi {
                        if let Some(s) = skip_upto {
                            if index <= s {
                                continue;
                            }
                        }
                        let input = Input::Index(index);
                        begin_case(pidx64, index, phase.deadline_ms, &mut crumb, None);
                        if let Some(code) = one_case(check, &findings, &mut st, &args, pidx, phase, index, &input, None) {
                            return code;
                        }
                    }
                }
                PhaseKind::Random { min_tape, max_tape, .. } => {
                    let mut runner = batch_rng(args.seed, &args.id, pidx64, chunk);
                    let strat = proptest::collection::vec(any::<u8>(), min_tape..=max_tape);
                    for index in lo..hi {
                        let mut tree = match strat.new_tree(&mut runner) {
                            Ok(t) => t,
                            Err(_) => continue,
                        };
                        if let Some(s) = skip_upto {
                            if index <= s {
                                continue;
                            }
                        }
                        let tape = tree.current();
                        let input = Input::Tape(tape);
                        begin_case(pidx64, index, phase.deadline_ms, &mut crumb, None);
                        let shrink: &mut dyn FnMut(&str) -> Option<(Vec<u8>, u32)> = &mut |sig: &str| {
                            // proptest shrinking on the tape, following only failures with the same signature
                            let mut best: Option<Vec<u8>> = None;
                            let mut runs = 0u32;
                            if !tree.simplify() {
                                return None;
                            }
                            loop {
                                runs += 1;
                                if runs > 3000 {
                                    break;
                                }
                                let cand = tree.current();
                                let mut c2 = CaseCtx::new(false);
                                CASE_SEQ.fetch_add(1, Ordering::Relaxed);
                                let r = guard("other", || check.run(args.tier, pidx, &Input::Tape(cand.clone()), &mut c2));
                                let same = r.is_ok() && c2.failures.iter().any(|f| f.sig == sig);
                                if same {
                                    best = Some(cand);
                                    if !tree.simplify() {
                                        break;
                                    }
                                } else if !tree.complicate() {
                                    break;
                                }
                            }
                            best.map(|b| (b, runs))
                        };
                        if let Some(code) = one_case(check, &findings, &mut st, &args, pidx, phase, index, &input, Some(shrink)) {
                            return code;
                        }
                    }
                }
            }
            chunk += args.nshards;
        }
    }
    finish(&args, st);
    0
}

fn one_case(
    check: &dyn Check,
    findings: &[Finding],
    st: &mut Stats,
    args: &WorkerArgs,
    pidx: usize,
    phase: &Phase,
    index: u64,
    input: &Input,
    shrink: Option<&mut dyn FnMut(&str) -> Option<(Vec<u8>, u32)>>,
) -> Option<i32> {
    let n = *st.per_phase.get(&phase.name).unwrap_or(&0);
    let want_render = n < 2 || (n.is_power_of_two() && n >= 64) || n % 8192 == 0;
    let mut ctx = CaseCtx::new(want_render);
    ctx.strict = args.strict;
    let r = guard("other", || check.run(args.tier, pidx, input, &mut ctx));
    if let Err(p) = r {
        if p.in_code_under_test() {
            // an observation the oracle makes (a read-back, a getter) unwound inside the repository's code: the property's
            // observable was not delivered, which is a failure of the case, not of the harness
            ctx.fail(format!("panic-in-code-under-test@{}", p.loc), format!("{} panicked while the check observed the case: {}", p.loc, p.msg.trim()));
        } else {
            emit(json!({"t":"harness_panic","loc":p.loc,"msg":p.msg,"where":format!("phase {} index {} input {}", phase.name, index, check.render(args.tier, pidx, input))}));
            return Some(4);
        }
    }
    *st.per_phase.entry(phase.name.clone()).or_insert(0) += 1;
    account(check, findings, st, &ctx, args.strict, pidx as u64, index, input, &phase.name, shrink.map(|s| (s, args.tier, pidx)), Some((args.tier, pidx)));
    None
}

fn account(
    check: &dyn Check,
    findings: &[Finding],
    st: &mut Stats,
    ctx: &CaseCtx,
    strict: bool,
    phase: u64,
    index: u64,
    input: &Input,
    phase_name: &str,
    shrink: Option<(&mut dyn FnMut(&str) -> Option<(Vec<u8>, u32)>, Tier, usize)>,
    run_at: Option<(Tier, usize)>,
) {
    st.cases += 1;
    st.evals += 1 + ctx.sub_evals;
    for c in &ctx.classes {
        *st.classes.entry(c.to_string()).or_insert(0) += 1;
    }
    if let Some(fp) = ctx.nontrivial {
        st.nontrivial_cases += 1;
        if st.fps.len() < FP_CAP {
            st.fps.insert(fp);
        } else {
            st.fp_capped = true;
        }
    }
    if let Some(r) = &ctx.rendered {
        if st.samples.len() < 64 {
            st.samples.push(json!({"phase":phase_name,"index":index,"nontrivial":ctx.nontrivial.is_some(),"case":r,"classes":ctx.classes}));
        }
    }
    if ctx.failures.is_empty() {
        return;
    }
    let tape_hex = match input {
        Input::Tape(t) => Value::String(hex(t)),
        _ => Value::Null,
    };
    let mut shrink = shrink;
    for f in &ctx.failures {
        if !strict {
            if let Some(k) = findings::matches(findings, check.id(), &f.sig) {
                let e = st.known.entry(k.signature.clone()).or_insert((0, String::new()));
                e.0 += 1;
                if e.1.is_empty() {
                    e.1 = ctx.rendered.clone().unwrap_or_else(|| f.detail.clone());
                    if e.1.len() > 300 {
                        e.1.truncate(300);
                    }
                }
                continue;
            }
        }
        if st.viol_sigs.contains(&f.sig) {
            continue;
        }
        st.viol_sigs.push(f.sig.clone());
        // shrink (random cases only), at most for the first 4 distinct signatures of this worker
        let mut final_tape = tape_hex.clone();
        let mut shrunk = false;
        let mut final_detail = f.detail.clone();
        let mut rendered = ctx.rendered.clone();
        let mut tier_p = None;
        if st.viol_sigs.len() <= 4 {
            if let Some((sh, tier, pidx)) = shrink.as_mut() {
                tier_p = Some((*tier, *pidx));
                if let Some((best, _runs)) = sh(&f.sig) {
                    final_tape = Value::String(hex(&best));
                    shrunk = true;
                    let mut c3 = CaseCtx::new(true);
                    let inp = Input::Tape(best);
                    let _ = guard("other", || check.run(*tier, *pidx, &inp, &mut c3));
                    if let Some(ff) = c3.failures.iter().find(|x| x.sig == f.sig) {
                        final_detail = ff.detail.clone();
                    }
                    rendered = c3.rendered.clone();
                }
            }
        }
        let _ = tier_p;
        if rendered.is_none() {
            // re-run with rendering on
            if let Some((tier, pidx)) = run_at {
                let mut c3 = CaseCtx::new(true);
                let _ = guard("other", || check.run(tier, pidx, input, &mut c3));
                rendered = c3.rendered;
            }
        }
        let text = match input {
            Input::Text(t) => Value::String(t.clone()),
            _ => Value::Null,
        };
        emit(json!({"t":"viol","phase":phase,"phase_name":phase_name,"index":index,"tape":final_tape,"text":text,"sig":f.sig,"detail":final_detail,
            "rendered":rendered,"shrunk":shrunk}));
    }
}

fn finish(args: &WorkerArgs, st: Stats) {
    // fingerprints to a binary file
    let fp_path = format!("{}/fps.{}.{}", args.workdir, args.shard, std::process::id());
    let mut buf = Vec::with_capacity(st.fps.len() * 8);
    for f in &st.fps {
        buf.extend_from_slice(&f.to_le_bytes());
    }
    let _ = std::fs::write(&fp_path, &buf);
    let known: BTreeMap<String, Value> = st.known.iter().map(|(k, v)| (k.clone(), json!({"count":v.0,"example":v.1}))).collect();
    emit(json!({"t":"done","cases":st.cases,"evals":st.evals,"classes":st.classes,"known":known,"samples":st.samples,
        "fp_file":fp_path,"fp_capped":st.fp_capped,"nontrivial_cases":st.nontrivial_cases,"per_phase":st.per_phase}));
}

pub fn load_replay(check: &dyn Check, path: &str) -> Option<(Tier, usize, Input)> {
    let text = std::fs::read_to_string(path).ok()?;
    let v: Value = serde_json::from_str(&text).ok()?;
    let tier = if v.get("tier").and_then(|t| t.as_str()) == Some("thorough") { Tier::Thorough } else { Tier::Quick };
    if let Some(text) = v.get("text").and_then(|t| t.as_str()) {
        return Some((tier, 0, Input::Text(text.to_string())));
    }
    let pname = v.get("phase_name").and_then(|t| t.as_str())?;
    let phases = check.phases(tier);
    let pidx = phases.iter().position(|p| p.name == pname)?;
    let input = match v.get("tape_hex").and_then(|t| t.as_str()) {
        Some(h) => Input::Tape(unhex(h)),
        None => Input::Index(v.get("index").and_then(|i| i.as_u64())?),
    };
    Some((tier, pidx, input))
}
