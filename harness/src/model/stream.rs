//! Instruction-stream well-formedness (C05), abstract interpretation of operand depth (C06 static),
//! and the per-step effect check (C06 dynamic). Reads the stream through GarnishData getters only.

use crate::model::data::GD;
use garnish_lang_traits::{GarnishDataType, Instruction};

#[derive(Debug, Clone)]
pub struct Fault {
    pub sig: String,
    pub detail: String,
}

fn fault(sig: impl Into<String>, detail: impl Into<String>) -> Fault {
    Fault { sig: sig.into(), detail: detail.into() }
}

/// What one build added to a data object.
#[derive(Debug, Clone, Copy)]
pub struct Extent {
    pub instr: (usize, usize),
    pub jumps: (usize, usize),
    pub data: (usize, usize),
    pub entry: usize,
}

pub fn snapshot_lens<D: GD>(d: &D) -> (usize, usize, usize) {
    (d.get_instruction_len(), d.get_jump_table_len(), d.get_data_len())
}

pub fn is_terminator(i: Instruction) -> bool {
    matches!(i, Instruction::EndExpression | Instruction::JumpTo)
}

pub fn carries_jump(i: Instruction) -> bool {
    matches!(i, Instruction::JumpTo | Instruction::JumpIfTrue | Instruction::JumpIfFalse | Instruction::And | Instruction::Or | Instruction::Reapply)
}

pub fn stream<D: GD>(d: &D, ext: &Extent) -> Vec<(Instruction, Option<usize>)> {
    (ext.instr.0..ext.instr.1).map(|i| d.get_instruction(i).unwrap_or((Instruction::Invalid, None))).collect()
}

pub fn render_stream<D: GD>(d: &D, ext: &Extent) -> String {
    let mut s = String::new();
    for (k, (i, a)) in stream(d, ext).iter().enumerate() {
        if k > 0 {
            s.push_str("; ");
        }
        match a {
            Some(a) => s.push_str(&format!("{}:{:?}({})", ext.instr.0 + k, i, a)),
            None => s.push_str(&format!("{}:{:?}", ext.instr.0 + k, i)),
        }
    }
    let jt: Vec<String> = (ext.jumps.0..ext.jumps.1).map(|j| format!("{}->{:?}", j, d.get_from_jump_table(j))).collect();
    format!("[{}] jumps[{}]", s, jt.join(" "))
}

/// Expression values created by this build: (data address, jump entry)
pub fn expression_values<D: GD>(d: &D, ext: &Extent) -> Vec<(usize, usize)> {
    let mut out = vec![];
    for a in ext.data.0..ext.data.1 {
        if let Ok(GarnishDataType::Expression) = d.get_data_type(a) {
            if let Ok(j) = d.get_expression(a) {
                out.push((a, j));
            }
        }
    }
    out
}

/// C05: every operand names something that exists, of the right kind, inside this build's own ranges.
pub fn streamcheck<D: GD>(d: &D, ext: &Extent, metadata: &[Option<usize>], node_count: usize) -> Vec<Fault> {
    let mut f = vec![];
    let code = stream(d, ext);
    let n_instr = ext.instr.1 - ext.instr.0;
    if metadata.len() != n_instr {
        f.push(fault("metadata-length", format!("{} instructions emitted, {} metadata records", n_instr, metadata.len())));
    }
    for (k, m) in metadata.iter().enumerate() {
        if let Some(i) = m {
            if *i >= node_count {
                f.push(fault("metadata-names-missing-node", format!("metadata record {} names parse node {} of {}", k, i, node_count)));
            }
        }
    }
    if n_instr == 0 {
        f.push(fault("empty-stream", "build emitted no instruction".to_string()));
        return f;
    }
    let data_len = d.get_data_len();
    for (k, (ins, arg)) in code.iter().enumerate() {
        let at = ext.instr.0 + k;
        match ins {
            Instruction::Invalid => f.push(fault("invalid-instruction", format!("instruction {} is Invalid", at))),
            Instruction::Put | Instruction::Resolve => match arg {
                None => f.push(fault(format!("missing-operand:{:?}", ins), format!("instruction {} {:?} has no operand", at, ins))),
                Some(a) => {
                    if *a >= data_len {
                        f.push(fault(format!("data-operand-out-of-range:{:?}", ins), format!("instruction {} {:?}({}) but data length is {}", at, ins, a, data_len)));
                    } else {
                        match d.get_data_type(*a) {
                            Err(e) => f.push(fault(format!("data-operand-unreadable:{:?}", ins), format!("instruction {} {:?}({}): {}", at, ins, a, e))),
                            Ok(t) => {
                                if *ins == Instruction::Resolve && t != GarnishDataType::Symbol {
                                    f.push(fault("resolve-operand-not-symbol", format!("instruction {} Resolve({}) names a {:?}", at, a, t)));
                                }
                                if t == GarnishDataType::Invalid || t == GarnishDataType::Custom {
                                    f.push(fault(format!("data-operand-not-a-value:{:?}", ins), format!("instruction {} {:?}({}) names a {:?}", at, ins, a, t)));
                                }
                            }
                        }
                    }
                }
            },
            Instruction::MakeList => {
                if arg.is_none() {
                    f.push(fault("missing-operand:MakeList", format!("instruction {} MakeList has no count", at)));
                }
            }
            i if carries_jump(*i) => match arg {
                None => f.push(fault(format!("missing-operand:{:?}", i), format!("instruction {} {:?} has no jump operand", at, i))),
                Some(j) => {
                    if *j >= d.get_jump_table_len() {
                        f.push(fault(format!("jump-operand-out-of-range:{:?}", i), format!("instruction {} {:?}({}) but the jump table has {} entries", at, i, j, d.get_jump_table_len())));
                    } else if *j < ext.jumps.0 || *j >= ext.jumps.1 {
                        f.push(fault(
                            format!("jump-operand-outside-own-entries:{:?}", i),
                            format!("instruction {} {:?}({}) names a jump entry outside the entries {}..{} this build created", at, i, j, ext.jumps.0, ext.jumps.1),
                        ));
                    }
                }
            },
            _ => {}
        }
    }
    // expression values
    for (a, j) in expression_values(d, ext) {
        if j >= d.get_jump_table_len() {
            f.push(fault("expression-value-names-missing-entry", format!("Expression value at {} names jump entry {} of {}", a, j, d.get_jump_table_len())));
        } else if j < ext.jumps.0 || j >= ext.jumps.1 {
            f.push(fault("expression-value-outside-own-entries", format!("Expression value at {} names jump entry {} outside this build's entries {}..{}", a, j, ext.jumps.0, ext.jumps.1)));
        }
    }
    // jump entries written by this build point inside this build's instructions
    for j in ext.jumps.0..ext.jumps.1 {
        match d.get_from_jump_table(j) {
            None => f.push(fault("jump-entry-unreadable", format!("jump entry {} cannot be read", j))),
            Some(t) => {
                // a join point directly after the last instruction is legal only if nothing jumps there; treat == end as out of range
                if t < ext.instr.0 || t >= ext.instr.1 {
                    f.push(fault(
                        "jump-entry-outside-own-instructions",
                        format!("jump entry {} points at instruction {} outside this build's instructions {}..{} (unpatched placeholder or absolute/relative mix-up)", j, t, ext.instr.0, ext.instr.1),
                    ));
                }
            }
        }
    }
    if ext.entry < ext.jumps.0 || ext.entry >= ext.jumps.1 {
        f.push(fault("entry-outside-own-entries", format!("reported entry {} outside this build's jump entries {}..{}", ext.entry, ext.jumps.0, ext.jumps.1)));
    }
    // straight-line runs end in a terminator: the last instruction, and the instruction before every body entry
    if !is_terminator(code[n_instr - 1].0) {
        f.push(fault(format!("last-instruction-not-terminator:{:?}", code[n_instr - 1].0), format!("the stream ends with {:?}", code[n_instr - 1].0)));
    }
    let mut body_entries: Vec<usize> = vec![ext.entry];
    for (_, j) in expression_values(d, ext) {
        body_entries.push(j);
    }
    for (ins, arg) in &code {
        if matches!(ins, Instruction::JumpIfTrue | Instruction::JumpIfFalse | Instruction::And | Instruction::Or) {
            if let Some(j) = arg {
                body_entries.push(*j);
            }
        }
    }
    body_entries.sort();
    body_entries.dedup();
    for j in body_entries {
        if let Some(t) = d.get_from_jump_table(j) {
            if t > ext.instr.0 && t < ext.instr.1 {
                let prev = code[t - 1 - ext.instr.0].0;
                if !is_terminator(prev) {
                    f.push(fault(
                        format!("run-falls-into-body:{:?}", prev),
                        format!("body entry {} starts at instruction {} but the instruction before it is {:?}, not EndExpression/JumpTo: the previous run falls through into it", j, t, prev),
                    ));
                }
            }
        }
    }
    f
}

/// (pops, pushes) on the operand stack for instructions without control flow; None for the ones handled specially
pub fn effect(i: Instruction, arg: Option<usize>) -> Option<(i64, i64)> {
    use Instruction::*;
    Some(match i {
        Put | PutValue | Resolve => (0, 1),
        PushValue | UpdateValue => (1, 0),
        Opposite | AbsoluteValue | BitwiseNot | Not | Tis | TypeOf | AccessLeftInternal | AccessRightInternal | AccessLengthInternal => (1, 1),
        Add | Subtract | Multiply | Divide | IntegerDivide | Power | Remainder | BitwiseAnd | BitwiseOr | BitwiseXor | BitwiseShiftLeft | BitwiseShiftRight | Xor | ApplyType | TypeEqual | Equal | NotEqual | LessThan
        | LessThanOrEqual | GreaterThan | GreaterThanOrEqual | MakePair | Access | Concat | PartialApply | MakeRange | MakeStartExclusiveRange | MakeEndExclusiveRange | MakeExclusiveRange => (2, 1),
        MakeList => (arg.unwrap_or(0) as i64, 1),
        Apply => (2, 1),
        EmptyApply => (1, 1),
        StartSideEffect => (0, 0),
        EndSideEffect => (1, 0),
        _ => return None,
    })
}

/// C06 static: one operand depth per instruction over all paths, never negative, exactly 1 at EndExpression.
/// Bodies (root, Expression values) are entered at relative depth 0.
pub fn absint<D: GD>(d: &D, ext: &Extent) -> (Vec<Option<i64>>, Vec<Fault>) {
    let code = stream(d, ext);
    let n = code.len();
    let mut depth: Vec<Option<i64>> = vec![None; n];
    let mut faults = vec![];
    let mut work: Vec<(usize, i64, String)> = vec![];
    let target = |j: usize| -> Option<usize> {
        let t = d.get_from_jump_table(j)?;
        if t >= ext.instr.0 && t < ext.instr.1 { Some(t - ext.instr.0) } else { None }
    };
    if let Some(t) = target(ext.entry) {
        work.push((t, 0, "root".to_string()));
    }
    for (_, j) in expression_values(d, ext) {
        if let Some(t) = target(j) {
            work.push((t, 0, format!("expression-body({})", j)));
        }
    }
    let mut guard_steps = 0usize;
    while let Some((pc, dep, via)) = work.pop() {
        guard_steps += 1;
        if guard_steps > n * 64 + 1024 {
            break;
        }
        if pc >= n {
            faults.push(fault("path-runs-off-the-end", format!("a path ({}) continues past the last instruction at depth {}", via, dep)));
            continue;
        }
        match depth[pc] {
            Some(existing) => {
                if existing != dep {
                    faults.push(fault(
                        format!("depth-differs-between-paths:{:?}", code[pc].0),
                        format!("instruction {} {:?} is reached with {} pending operands on one path and {} on another ({})", ext.instr.0 + pc, code[pc].0, existing, dep, via),
                    ));
                }
                continue;
            }
            None => depth[pc] = Some(dep),
        }
        let (ins, arg) = code[pc];
        let here = format!("{:?}@{}", ins, ext.instr.0 + pc);
        let need = |k: i64, faults: &mut Vec<Fault>| -> bool {
            if dep < k {
                faults.push(fault(format!("operand-underflow:{:?}", ins), format!("instruction {} {:?} needs {} pending operands but only {} are pending on a path ({})", ext.instr.0 + pc, ins, k, dep, via)));
                false
            } else {
                true
            }
        };
        match ins {
            Instruction::EndExpression => {
                if dep != 1 {
                    faults.push(fault(format!("end-of-expression-depth:{}", if dep < 1 { "nothing-pending" } else { "extra-pending" }), format!("EndExpression at instruction {} with {} pending operands (must be exactly 1) ({})", ext.instr.0 + pc, dep, via)));
                }
            }
            Instruction::JumpTo => {
                if let Some(t) = arg.and_then(target) {
                    work.push((t, dep, here));
                }
            }
            Instruction::JumpIfTrue | Instruction::JumpIfFalse => {
                if need(1, &mut faults) {
                    if let Some(t) = arg.and_then(target) {
                        work.push((t, dep - 1, here.clone()));
                    }
                    work.push((pc + 1, dep - 1, here));
                }
            }
            Instruction::And | Instruction::Or => {
                if need(1, &mut faults) {
                    if let Some(t) = arg.and_then(target) {
                        work.push((t, dep - 1, here.clone()));
                    }
                    work.push((pc + 1, dep, here));
                }
            }
            Instruction::Reapply => {
                if need(1, &mut faults) {
                    if let Some(t) = arg.and_then(target) {
                        work.push((t, dep - 1, here));
                    }
                }
            }
            Instruction::Invalid => {}
            other => {
                if let Some((pops, pushes)) = effect(other, arg) {
                    if need(pops, &mut faults) {
                        work.push((pc + 1, dep - pops + pushes, here));
                    }
                }
            }
        }
    }
    (depth, faults)
}
