//! Reference evaluator for the core language, over the reference parser's tree (Sx). Written from the documented /
//! tested meaning of each construct (DESIGN.md §2); shares no code with the runtime. Where the meaning of a combination is
//! not settled (or a recorded open finding makes the implementations disagree with it), it answers `Undefined` and the
//! case is discarded instead of judged.

use crate::checks::c09::{self, Expect, Op};
use crate::model::sx::Sx;
use crate::model::value::{SymPart, V, pair};
use garnish_lang_simple_data::SimpleNumber;
use garnish_lang_simple_data::symbol_value;

#[derive(Debug, Clone, PartialEq)]
pub enum Event {
    Resolve(u64),
    ExternalApply(usize, String),
}

#[derive(Debug, Clone)]
pub enum Stop {
    Undefined(&'static str),
    Budget,
    Reapply(V),
}

/// What the scripted host answers.
#[derive(Clone, Default)]
pub struct Host {
    /// symbol -> value the host resolves it to (by name hash)
    pub resolves: Vec<(u64, V)>,
    /// external number -> fn of argument producing a value (None = declines)
    pub externals: Vec<(usize, fn(&V) -> Option<V>)>,
}

pub struct Eval<'a> {
    pub host: &'a Host,
    pub trace: Vec<Event>,
    pub steps: usize,
    pub limit: usize,
    /// nested expression bodies by id
    pub bodies: Vec<Sx>,
    pub used: Vec<&'static str>,
}

type R = Result<V, Stop>;

fn num(v: &V) -> Option<SimpleNumber> {
    match v {
        V::Int(i) => Some(SimpleNumber::Integer(*i)),
        V::Float(f) => Some(SimpleNumber::Float(*f)),
        _ => None,
    }
}

fn from_expect(e: Expect) -> R {
    match e {
        Expect::Unit => Ok(V::Unit),
        Expect::Int(i) => Ok(V::Int(i)),
        Expect::Flt(f) => Ok(V::Float(f)),
        // float `//` is ambiguous between representations (and saturates: open finding) -> not judged
        Expect::Trunc(_) => Err(Stop::Undefined("float-integer-division")),
    }
}

fn bool_v(b: bool) -> V {
    if b { V::True } else { V::False }
}

/// structural equality as the language defines `==`; None where the reference does not settle it
pub fn veq(a: &V, b: &V) -> Option<bool> {
    Some(match (a, b) {
        (V::Unit, V::Unit) | (V::True, V::True) | (V::False, V::False) => true,
        (V::Int(_) | V::Float(_), V::Int(_) | V::Float(_)) => {
            let (x, y) = (num(a).unwrap(), num(b).unwrap());
            match (x, y) {
                (SimpleNumber::Integer(p), SimpleNumber::Integer(q)) => p == q,
                (p, q) => {
                    let f = |n: SimpleNumber| match n {
                        SimpleNumber::Integer(i) => i as f64,
                        SimpleNumber::Float(f) => f,
                    };
                    f(p) == f(q)
                }
            }
        }
        (V::Char(x), V::Char(y)) => x == y,
        (V::Byte(x), V::Byte(y)) => x == y,
        (V::Sym(x), V::Sym(y)) => x == y,
        (V::SymList(x), V::SymList(y)) => x == y,
        (V::Text(x), V::Text(y)) => x == y,
        (V::Bytes(x), V::Bytes(y)) => x == y,
        (V::Char(c), V::Text(t)) | (V::Text(t), V::Char(c)) => t.len() == 1 && t[0] == *c,
        (V::Byte(c), V::Bytes(t)) | (V::Bytes(t), V::Byte(c)) => t.len() == 1 && t[0] == *c,
        (V::Type(x), V::Type(y)) => x == y,
        (V::Pair(a1, b1), V::Pair(a2, b2)) => veq(a1, a2)? && veq(b1, b2)?,
        (V::List(x), V::List(y)) => {
            if x.len() != y.len() {
                false
            } else {
                for (p, q) in x.iter().zip(y.iter()) {
                    if !veq(p, q)? {
                        return Some(false);
                    }
                }
                true
            }
        }
        (V::Expr(_), _) | (_, V::Expr(_)) => return None,
        (V::Concat(..) | V::Slice(..) | V::Range(..) | V::Partial(..) | V::External(_), _) | (_, V::Concat(..) | V::Slice(..) | V::Range(..) | V::Partial(..) | V::External(_)) => return None,
        _ => false,
    })
}

fn lookup_symbol(container: &V, s: u64) -> Result<Option<V>, Stop> {
    match container {
        V::Pair(k, v) => Ok(match **k {
            V::Sym(ks) if ks == s => Some((**v).clone()),
            _ => None,
        }),
        V::List(items) => {
            let mut found: Option<V> = None;
            for it in items {
                if let V::Pair(k, v) = it {
                    if let V::Sym(ks) = **k {
                        if ks == s {
                            if found.is_some() {
                                return Err(Stop::Undefined("duplicate-keys"));
                            }
                            found = Some((**v).clone());
                        }
                    }
                }
            }
            Ok(found)
        }
        V::Concat(..) => {
            // a concatenation is the flat sequence of its operands' items: a list operand contributes its items, any other
            // operand itself, however the `<>` operations were nested; with distinct keys the answer does not depend on order
            fn flat<'a>(v: &'a V, out: &mut Vec<&'a V>) {
                match v {
                    V::Concat(a, b) => {
                        flat(a, out);
                        flat(b, out);
                    }
                    V::List(items) => out.extend(items.iter()),
                    other => out.push(other),
                }
            }
            let mut items = vec![];
            flat(container, &mut items);
            let mut found: Option<V> = None;
            for it in items {
                if let V::Pair(k, v) = it {
                    if let V::Sym(ks) = **k {
                        if ks == s {
                            if found.is_some() {
                                return Err(Stop::Undefined("duplicate-keys"));
                            }
                            found = Some((**v).clone());
                        }
                    }
                }
            }
            Ok(found)
        }
        V::Slice(..) => Err(Stop::Undefined("lookup-in-concatenation-or-slice")),
        _ => Ok(None),
    }
}

fn index_number(container: &V, n: &V) -> Result<Option<V>, Stop> {
    let i = match n {
        V::Int(i) => *i as i64,
        _ => return Err(Stop::Undefined("fractional-index")),
    };
    match container {
        V::Pair(k, _) => Ok(if i == 0 && matches!(**k, V::Sym(_)) { Some(container.clone()) } else { None }),
        V::List(items) => {
            if i < 0 {
                Ok(None)
            } else if (i as usize) < items.len() {
                Ok(Some(items[i as usize].clone()))
            } else {
                Ok(None)
            }
        }
        V::Text(t) => Ok(if i >= 0 && (i as usize) < t.len() { Some(V::Char(t[i as usize])) } else { None }),
        V::Bytes(t) => Ok(if i >= 0 && (i as usize) < t.len() { Some(V::Byte(t[i as usize])) } else { None }),
        V::SymList(p) => Ok(if i >= 0 && (i as usize) < p.len() {
            Some(match &p[i as usize] {
                SymPart::Sym(s) => V::Sym(*s),
                SymPart::Num(n) => V::Int(*n),
            })
        } else {
            None
        }),
        _ => Err(Stop::Undefined("index-into-other-type")),
    }
}

fn sym_parts(v: &V) -> Option<Vec<SymPart>> {
    match v {
        V::Sym(s) => Some(vec![SymPart::Sym(*s)]),
        V::SymList(p) => Some(p.clone()),
        _ => None,
    }
}

/// Static well-formedness of a program tree: shapes the language gives no meaning to (or that a recorded open finding covers)
/// make the whole program Undefined for the reference, even in code that is never executed.
pub fn shape_check(n: &Sx, in_group: bool) -> Result<(), &'static str> {
    match n {
        Sx::Broken(_) => Err("broken-tree"),
        Sx::Leaf(..) => Ok(()),
        Sx::ValNode(_, _, l, r) => {
            for s in [l, r].into_iter().flatten() {
                match &**s {
                    Sx::Node(d, None, Some(body)) if d == "SideEffect" => shape_check(body, false)?,
                    Sx::Node(d, None, None) if d == "SideEffect" => return Err("empty-side-effect"),
                    _ => return Err("value-child-not-a-side-effect"),
                }
            }
            Ok(())
        }
        Sx::Node(d, l, r) => {
            let d = d.as_str();
            match d {
                "Group" => match r {
                    Some(inner) => return shape_check(inner, true),
                    None => return Err("empty-group"),
                },
                "NestedExpression" => match r {
                    Some(inner) => return shape_check(inner, false),
                    None => return Err("empty-nested-expression"),
                },
                "SideEffect" => return Err("side-effect-not-attached-to-a-value"),
                "Subexpression" | "ExpressionSeparator" => {
                    if in_group {
                        // inside ( ) a separator is white space
                        return Err("separator-inside-group");
                    }
                }
                "ElseJump" => {
                    let ok = match l.as_deref() {
                        Some(Sx::Node(ld, _, _)) if ld == "JumpIfTrue" || ld == "JumpIfFalse" => true,
                        Some(Sx::Node(ld, _, Some(lr))) if ld == "ElseJump" => matches!(&**lr, Sx::Node(x, _, _) if x == "JumpIfTrue" || x == "JumpIfFalse"),
                        _ => false,
                    };
                    if !ok {
                        return Err("else-without-conditional");
                    }
                }
                "CommaList" => {}
                _ => {
                    // every other operator needs all its operands
                    let fix = crate::model::optable::by_def(d).map(|o| o.fix);
                    let (need_l, need_r) = match fix {
                        Some(crate::model::optable::Fix::Prefix) => (false, true),
                        Some(crate::model::optable::Fix::Suffix) => (true, false),
                        Some(_) => (true, true),
                        None => return Err("operator-outside-the-core-language"),
                    };
                    if (need_l && l.is_none()) || (need_r && r.is_none()) {
                        return Err("missing-operand");
                    }
                }
            }
            // separators keep their meaning only along the spine of separators / conditional arms at body level
            let keeps = matches!(d, "Subexpression" | "ExpressionSeparator");
            for c in [l, r].into_iter().flatten() {
                shape_check(c, if keeps { in_group } else { in_group || !matches!(d, "JumpIfTrue" | "JumpIfFalse" | "ElseJump" | "And" | "Or") })?;
            }
            Ok(())
        }
    }
}

impl<'a> Eval<'a> {
    pub fn new(host: &'a Host, limit: usize) -> Self {
        Eval { host, trace: vec![], steps: 0, limit, bodies: vec![], used: vec![] }
    }

    fn tick(&mut self) -> Result<(), Stop> {
        self.steps += 1;
        if self.steps > self.limit { Err(Stop::Budget) } else { Ok(()) }
    }

    /// values that grow without bound (e.g. `^~ $ $`) end the reference run
    fn sized(&self, v: V) -> R {
        if v.size() > 4000 { Err(Stop::Budget) } else { Ok(v) }
    }

    fn mark(&mut self, c: &'static str) {
        if !self.used.contains(&c) {
            self.used.push(c);
        }
    }

    /// Run a whole program with the given input value.
    pub fn run(&mut self, program: &Sx, input: V) -> R {
        if let Err(why) = shape_check(program, false) {
            return Err(Stop::Undefined(why));
        }
        let mut vs = vec![input];
        let mut rounds = 0;
        loop {
            match self.eval(program, &mut vs, true) {
                Err(Stop::Reapply(v)) => {
                    rounds += 1;
                    if rounds > 200 {
                        return Err(Stop::Budget);
                    }
                    self.mark("reapply");
                    *vs.last_mut().unwrap() = v;
                }
                other => return other,
            }
        }
    }

    fn not_tail(r: R) -> R {
        match r {
            Err(Stop::Reapply(_)) => Err(Stop::Undefined("reapply-under-an-operator")),
            other => other,
        }
    }

    fn operand(&mut self, n: &Option<Box<Sx>>, vs: &mut Vec<V>) -> R {
        match n {
            Some(n) => Self::not_tail(self.eval(n, vs, false)),
            None => Err(Stop::Undefined("missing-operand")),
        }
    }

    fn resolve_identifier(&mut self, name: &str, vs: &mut Vec<V>) -> R {
        let s = symbol_value(name);
        let cur = vs.last().cloned().unwrap_or(V::Unit);
        if let Some(v) = lookup_symbol(&cur, s)? {
            self.mark("identifier-from-input");
            return Ok(v);
        }
        self.trace.push(Event::Resolve(s));
        match self.host.resolves.iter().find(|(k, _)| *k == s) {
            Some((_, v)) => Ok(v.clone()),
            None => Ok(V::Unit),
        }
    }

    fn literal(&mut self, def: &str, text: &str, vs: &mut Vec<V>) -> R {
        match def {
            "Number" => {
                if let Ok(i) = text.parse::<i32>() {
                    Ok(V::Int(i))
                } else if let Ok(f) = text.parse::<f64>() {
                    if text.contains('.') && f.is_finite() { Ok(V::Float(f)) } else { Err(Stop::Undefined("number-literal-form")) }
                } else {
                    Err(Stop::Undefined("number-literal-form"))
                }
            }
            "CharList" => {
                let inner = text.trim_matches('"');
                if inner.contains('\\') {
                    return Err(Stop::Undefined("text-literal-with-escapes"));
                }
                Ok(V::Text(inner.chars().collect()))
            }
            "ByteList" => {
                // the one-quote form only: every ASCII character spells its own byte; the numeric forms (three or more
                // quotes) and escapes are the business of C14
                let n = text.len();
                if n < 2 || !text.starts_with('\'') || !text.ends_with('\'') {
                    return Err(Stop::Undefined("literal-kind"));
                }
                let inner = &text[1..n - 1];
                if inner.contains('\'') || inner.contains('\\') || !inner.is_ascii() {
                    return Err(Stop::Undefined("byte-literal-form"));
                }
                Ok(V::Bytes(inner.bytes().collect()))
            }
            "Symbol" => Ok(V::Sym(symbol_value(text.trim_start_matches(':')))),
            "Unit" => Ok(V::Unit),
            "True" => Ok(V::True),
            "False" => Ok(V::False),
            "Value" => Ok(vs.last().cloned().unwrap_or(V::Unit)),
            "Identifier" => self.resolve_identifier(text, vs),
            _ => Err(Stop::Undefined("literal-kind")),
        }
    }

    fn apply(&mut self, f: V, arg: V, vs: &mut Vec<V>) -> R {
        match &f {
            V::Expr(id) => {
                self.mark("apply-expression");
                let body = self.bodies.get(*id).cloned().ok_or(Stop::Undefined("unknown-expression"))?;
                vs.push(arg);
                let mut rounds = 0;
                let out = loop {
                    self.tick()?;
                    match self.eval(&body, vs, true) {
                        Err(Stop::Reapply(v)) => {
                            rounds += 1;
                            if rounds > 200 {
                                vs.pop();
                                return Err(Stop::Budget);
                            }
                            self.mark("reapply");
                            *vs.last_mut().unwrap() = v;
                        }
                        other => break other,
                    }
                };
                vs.pop();
                out
            }
            V::External(n) => {
                self.trace.push(Event::ExternalApply(*n, format!("{}", arg)));
                match self.host.externals.iter().find(|(k, _)| k == n) {
                    Some((_, f)) => Ok(f(&arg).unwrap_or(V::Unit)),
                    None => Ok(V::Unit),
                }
            }
            V::List(_) | V::Pair(..) => match &arg {
                V::Int(_) | V::Float(_) => Ok(index_number(&f, &arg)?.unwrap_or(V::Unit)),
                V::Sym(s) => Ok(lookup_symbol(&f, *s)?.unwrap_or(V::Unit)),
                V::SymList(_) => Err(Stop::Undefined("apply-with-symbol-list")),
                V::Expr(_) | V::Partial(..) | V::External(_) | V::Range(..) | V::Slice(..) | V::Concat(..) => Err(Stop::Undefined("apply-argument-kind")),
                _ => Ok(V::Unit),
            },
            V::Sym(_) | V::SymList(_) | V::Partial(..) | V::Range(..) | V::Slice(..) | V::Concat(..) | V::Text(_) | V::Bytes(_) => {
                // symbol merges, slices, partials: outside the core language of C01
                match (&f, &arg) {
                    (V::Text(_) | V::Bytes(_), V::Int(_) | V::Float(_) | V::Sym(_) | V::Unit | V::True | V::False | V::Text(_)) => Ok(V::Unit),
                    _ => Err(Stop::Undefined("apply-on-this-receiver")),
                }
            }
            _ => Ok(V::Unit), // numbers, booleans, unit, chars: no result defined -> unit (after offering it to the host, see C08)
        }
    }

    /// flatten a same-kind list spine into item nodes
    fn list_items<'s>(n: &'s Sx, kind: &str, out: &mut Vec<&'s Sx>) {
        if let Sx::Node(d, l, r) = n {
            if d == kind {
                for c in [l, r] {
                    if let Some(c) = c {
                        match &**c {
                            Sx::Node(cd, _, _) if cd == kind => Self::list_items(c, kind, out),
                            other => out.push(other),
                        }
                    }
                }
                return;
            }
        }
        out.push(n);
    }

    /// arms of a conditional chain, in order: (Some((is_if_true, cond, arm)) | default)
    fn chain<'s>(n: &'s Sx, out: &mut Vec<&'s Sx>) {
        if let Sx::Node(d, Some(l), Some(r)) = n {
            if d == "ElseJump" {
                Self::chain(l, out);
                out.push(r);
                return;
            }
        }
        out.push(n);
    }

    pub fn eval(&mut self, n: &Sx, vs: &mut Vec<V>, tail: bool) -> R {
        self.tick()?;
        match n {
            Sx::Broken(_) => Err(Stop::Undefined("broken-tree")),
            Sx::Leaf(def, text) => self.literal(def, text, vs),
            Sx::ValNode(def, text, l, r) => {
                self.mark("side-effect");
                for side in [l, r] {
                    if let Some(s) = side {
                        match &**s {
                            Sx::Node(d, None, _) if d == "SideEffect" => {}
                            _ => return Err(Stop::Undefined("value-child-not-a-side-effect")),
                        }
                    }
                }
                let run_side = |this: &mut Self, s: &Option<Box<Sx>>, vs: &mut Vec<V>| -> Result<(), Stop> {
                    if let Some(s) = s {
                        if let Sx::Node(_, None, body) = &**s {
                            let cur = vs.last().cloned().unwrap_or(V::Unit);
                            vs.push(cur);
                            let r = match body {
                                Some(b) => Self::not_tail(this.eval(b, vs, false)),
                                None => Err(Stop::Undefined("empty-side-effect")),
                            };
                            vs.pop();
                            r?;
                        }
                    }
                    Ok(())
                };
                run_side(self, l, vs)?;
                let v = self.literal(def, text, vs)?;
                run_side(self, r, vs)?;
                Ok(v)
            }
            Sx::Node(def, l, r) => {
                let def = def.as_str();
                match def {
                    "Group" => match r {
                        Some(inner) => self.eval(inner, vs, tail),
                        None => Err(Stop::Undefined("empty-group")),
                    },
                    "NestedExpression" => {
                        let body = match r {
                            Some(b) => (**b).clone(),
                            None => return Err(Stop::Undefined("empty-nested-expression")),
                        };
                        self.bodies.push(body);
                        self.mark("nested-expression");
                        Ok(V::Expr(self.bodies.len() - 1))
                    }
                    "SideEffect" => Err(Stop::Undefined("side-effect-not-attached-to-a-value")),
                    "Subexpression" | "ExpressionSeparator" => {
                        if !tail {
                            return Err(Stop::Undefined("separator-inside-operand"));
                        }
                        self.mark("sequencing");
                        let lv = match l {
                            Some(l) => self.eval(l, vs, true)?,
                            None => return Err(Stop::Undefined("missing-operand")),
                        };
                        *vs.last_mut().unwrap() = lv;
                        match r {
                            Some(r) => self.eval(r, vs, true),
                            None => Err(Stop::Undefined("missing-operand")),
                        }
                    }
                    "Reapply" => {
                        if !tail {
                            return Err(Stop::Undefined("reapply-under-an-operator"));
                        }
                        let v = self.operand(r, vs)?;
                        Err(Stop::Reapply(v))
                    }
                    "JumpIfTrue" | "JumpIfFalse" | "ElseJump" => {
                        self.mark("conditional");
                        let mut arms: Vec<&Sx> = vec![];
                        Self::chain(n, &mut arms);
                        let last = arms.len() - 1;
                        for (i, a) in arms.iter().enumerate() {
                            match a {
                                Sx::Node(d, Some(c), Some(x)) if d == "JumpIfTrue" || d == "JumpIfFalse" => {
                                    let cv = Self::not_tail(self.eval(c, vs, false))?;
                                    let take = cv.truthy() == (d == "JumpIfTrue");
                                    if take {
                                        return self.eval(x, vs, tail);
                                    }
                                    if i == last {
                                        if arms.len() == 1 {
                                            // single conditional: the current input value
                                            return Ok(vs.last().cloned().unwrap_or(V::Unit));
                                        }
                                        return Err(Stop::Undefined("else-chain-without-default"));
                                    }
                                }
                                other => {
                                    if i != last {
                                        return Err(Stop::Undefined("default-arm-not-last"));
                                    }
                                    if arms.len() == 1 {
                                        return Err(Stop::Undefined("else-without-conditional"));
                                    }
                                    self.mark("else-default");
                                    return self.eval(other, vs, tail);
                                }
                            }
                        }
                        Err(Stop::Undefined("conditional-shape"))
                    }
                    "And" | "Or" => {
                        self.mark("logical-short-circuit");
                        let lv = self.operand(l, vs)?;
                        let decided = if def == "And" { !lv.truthy() } else { lv.truthy() };
                        if decided {
                            return Ok(bool_v(def == "Or"));
                        }
                        let rv = match r {
                            Some(r) => self.eval(r, vs, tail)?,
                            None => return Err(Stop::Undefined("missing-operand")),
                        };
                        Ok(bool_v(rv.truthy()))
                    }
                    "List" | "CommaList" => {
                        self.mark(if def == "List" { "space-list" } else { "comma-list" });
                        let mut items: Vec<&Sx> = vec![];
                        Self::list_items(n, def, &mut items);
                        let mut out = vec![];
                        for it in items {
                            out.push(Self::not_tail(self.eval(it, vs, false))?);
                        }
                        self.sized(V::List(out))
                    }
                    "Pair" => {
                        self.mark("pair");
                        let rv = self.operand(r, vs)?;
                        let lv = self.operand(l, vs)?;
                        self.sized(pair(lv, rv))
                    }
                    "ApplyTo" => {
                        let fv = self.operand(r, vs)?;
                        let xv = self.operand(l, vs)?;
                        self.apply(fv, xv, vs)
                    }
                    "Apply" => {
                        let fv = self.operand(l, vs)?;
                        let xv = self.operand(r, vs)?;
                        self.apply(fv, xv, vs)
                    }
                    "EmptyApply" => {
                        let fv = self.operand(l, vs)?;
                        self.apply(fv, V::Unit, vs)
                    }
                    "Access" => {
                        self.mark("access");
                        let lv = self.operand(l, vs)?;
                        // an identifier directly right of `.` is a property name, not a look-up
                        let rv = match r.as_deref() {
                            Some(Sx::Leaf(d, t)) if d == "Identifier" => V::Sym(symbol_value(t)),
                            Some(Sx::ValNode(d, _, _, _)) if d == "Identifier" => return Err(Stop::Undefined("property-with-side-effect")),
                            _ => self.operand(r, vs)?,
                        };
                        match (&lv, &rv) {
                            (V::Sym(_) | V::SymList(_), V::Sym(_) | V::SymList(_)) => {
                                let mut p = sym_parts(&lv).unwrap();
                                p.extend(sym_parts(&rv).unwrap());
                                Ok(V::SymList(p))
                            }
                            (V::Sym(_) | V::SymList(_), V::Int(_) | V::Float(_)) | (V::Int(_) | V::Float(_), V::Sym(_) | V::SymList(_)) => Err(Stop::Undefined("symbol-list-with-number")),
                            (V::Pair(..) | V::List(_), V::Int(_) | V::Float(_)) => Ok(index_number(&lv, &rv)?.unwrap_or(V::Unit)),
                            (V::Text(_) | V::Bytes(_), V::Int(_) | V::Float(_)) => Ok(index_number(&lv, &rv)?.unwrap_or(V::Unit)),
                            (V::Pair(..) | V::List(_), V::Sym(s)) => Ok(lookup_symbol(&lv, *s)?.unwrap_or(V::Unit)),
                            (V::Text(_) | V::Bytes(_) | V::Range(..), V::Sym(_)) => Err(Stop::Undefined("text-accessed-by-symbol")),
                            (V::Concat(..) | V::Slice(..) | V::Range(..), _) => Err(Stop::Undefined("access-on-this-receiver")),
                            _ => Ok(V::Unit),
                        }
                    }
                    "AccessLeftInternal" | "AccessRightInternal" | "AccessLengthInternal" => {
                        self.mark("internal-accessor");
                        let v = if def == "AccessLeftInternal" { self.operand(r, vs)? } else { self.operand(l, vs)? };
                        match (def, &v) {
                            ("AccessLeftInternal", V::Pair(a, _)) => Ok((**a).clone()),
                            ("AccessRightInternal", V::Pair(_, b)) => Ok((**b).clone()),
                            ("AccessLengthInternal", V::Pair(k, _)) => Ok(if matches!(**k, V::Sym(_)) { V::Int(1) } else { V::Unit }),
                            ("AccessLengthInternal", V::List(i)) => Ok(V::Int(i.len() as i32)),
                            ("AccessLengthInternal", V::Text(t)) => Ok(V::Int(t.len() as i32)),
                            ("AccessLengthInternal", V::Bytes(t)) => Ok(V::Int(t.len() as i32)),
                            (_, V::Range(..) | V::Slice(..) | V::Concat(..)) => Err(Stop::Undefined("internal-accessor-on-this-receiver")),
                            _ => Ok(V::Unit),
                        }
                    }
                    "Not" | "Tis" => {
                        let v = self.operand(r, vs)?;
                        Ok(bool_v(v.truthy() == (def == "Tis")))
                    }
                    "Xor" => {
                        let a = self.operand(l, vs)?;
                        let b = self.operand(r, vs)?;
                        Ok(bool_v(a.truthy() != b.truthy()))
                    }
                    "AbsoluteValue" | "Opposite" | "BitwiseNot" => {
                        self.mark("arithmetic");
                        let v = self.operand(r, vs)?;
                        let op = match def {
                            "AbsoluteValue" => Op::Abs,
                            "Opposite" => Op::Neg,
                            _ => Op::Not,
                        };
                        match num(&v) {
                            Some(x) => from_expect(c09::reference_unary(op, x)),
                            None => Ok(V::Unit),
                        }
                    }
                    "Equality" | "Inequality" => {
                        self.mark("equality");
                        let a = self.operand(l, vs)?;
                        let b = self.operand(r, vs)?;
                        match veq(&a, &b) {
                            Some(e) => Ok(bool_v(e == (def == "Equality"))),
                            None => Err(Stop::Undefined("equality-on-these-operands")),
                        }
                    }
                    "LessThan" | "LessThanOrEqual" | "GreaterThan" | "GreaterThanOrEqual" => {
                        self.mark("comparison");
                        let a = self.operand(l, vs)?;
                        let b = self.operand(r, vs)?;
                        let ord = match (&a, &b) {
                            (V::Int(_) | V::Float(_), V::Int(_) | V::Float(_)) => {
                                let f = |v: &V| match v {
                                    V::Int(i) => *i as f64,
                                    V::Float(f) => *f,
                                    _ => 0.0,
                                };
                                match (&a, &b) {
                                    (V::Int(x), V::Int(y)) => Some(x.cmp(y)),
                                    _ => f(&a).partial_cmp(&f(&b)),
                                }
                            }
                            (V::Text(x), V::Text(y)) => Some(x.cmp(y)),
                            (V::Bytes(x), V::Bytes(y)) => Some(x.cmp(y)),
                            (V::Char(x), V::Char(y)) => Some(x.cmp(y)),
                            (V::Byte(x), V::Byte(y)) => Some(x.cmp(y)),
                            (V::Slice(..), _) | (_, V::Slice(..)) => return Err(Stop::Undefined("comparison-of-slices")),
                            _ => return Ok(V::False),
                        };
                        let ord = match ord {
                            Some(o) => o,
                            None => return Ok(V::Unit),
                        };
                        Ok(bool_v(match def {
                            "LessThan" => ord.is_lt(),
                            "LessThanOrEqual" => ord.is_le(),
                            "GreaterThan" => ord.is_gt(),
                            _ => ord.is_ge(),
                        }))
                    }
                    _ => {
                        // arithmetic and bitwise binary operators
                        let op = match def {
                            "Addition" => Op::Add,
                            "Subtraction" => Op::Sub,
                            "MultiplicationSign" => Op::Mul,
                            "Division" => Op::Div,
                            "IntegerDivision" => Op::IDiv,
                            "Remainder" => Op::Rem,
                            "ExponentialSign" => Op::Pow,
                            "BitwiseAnd" => Op::And,
                            "BitwiseOr" => Op::Or,
                            "BitwiseXor" => Op::Xor,
                            "BitwiseLeftShift" => Op::Shl,
                            "BitwiseRightShift" => Op::Shr,
                            _ => return Err(Stop::Undefined("operator-outside-the-core-language")),
                        };
                        self.mark("arithmetic");
                        let a = self.operand(l, vs)?;
                        let b = self.operand(r, vs)?;
                        match (num(&a), num(&b)) {
                            (Some(x), Some(y)) => from_expect(c09::reference(op, x, y)),
                            _ => Ok(V::Unit),
                        }
                    }
                }
            }
        }
    }
}
