//! Calling single runtime instructions directly on operands placed through the data API, with sentinel registers below
//! the operands so that over-popping is visible.

use crate::engine::core::guard;
use crate::model::data::GD;
use crate::model::value::{V, build_value, readback};
use garnish_lang_runtime::ops;
use garnish_lang_simple_data::SimpleNumber;
use garnish_lang_traits::Instruction;

#[derive(Debug, Clone)]
pub struct OpOutcome {
    /// Ok(result value) or Err(runtime error text)
    pub result: Result<V, String>,
    /// registers above the sentinels after the call
    pub left_above_sentinels: i64,
    pub sentinels_intact: bool,
    pub left_addr: usize,
    pub right_addr: usize,
    pub panicked: Option<String>,
}

pub fn dispatch<D: GD>(d: &mut D, ins: Instruction) -> Result<(), String> {
    use Instruction::*;
    let r = match ins {
        Add => ops::add(d),
        Subtract => ops::subtract(d),
        Multiply => ops::multiply(d),
        Divide => ops::divide(d),
        IntegerDivide => ops::integer_divide(d),
        Power => ops::power(d),
        Remainder => ops::remainder(d),
        Opposite => ops::opposite(d),
        AbsoluteValue => ops::absolute_value(d),
        BitwiseNot => ops::bitwise_not(d),
        BitwiseAnd => ops::bitwise_and(d),
        BitwiseOr => ops::bitwise_or(d),
        BitwiseXor => ops::bitwise_xor(d),
        BitwiseShiftLeft => ops::bitwise_left_shift(d),
        BitwiseShiftRight => ops::bitwise_right_shift(d),
        Xor => ops::xor(d),
        Not => ops::not(d),
        Tis => ops::tis(d),
        TypeOf => ops::type_of(d),
        ApplyType => ops::type_cast(d),
        TypeEqual => ops::type_equal(d),
        Equal => ops::equal(d),
        NotEqual => ops::not_equal(d),
        LessThan => ops::less_than(d),
        LessThanOrEqual => ops::less_than_or_equal(d),
        GreaterThan => ops::greater_than(d),
        GreaterThanOrEqual => ops::greater_than_or_equal(d),
        MakePair => ops::make_pair(d),
        Access => ops::access(d),
        AccessLeftInternal => ops::access_left_internal(d),
        AccessRightInternal => ops::access_right_internal(d),
        AccessLengthInternal => ops::access_length_internal(d),
        MakeRange => ops::make_range(d),
        MakeStartExclusiveRange => ops::make_start_exclusive_range(d),
        MakeEndExclusiveRange => ops::make_end_exclusive_range(d),
        MakeExclusiveRange => ops::make_exclusive_range(d),
        Concat => ops::concat(d),
        Apply => ops::apply(d),
        EmptyApply => ops::empty_apply(d),
        PartialApply => ops::partial_apply(d),
        other => return Err(format!("instruction {:?} is not driven directly", other)),
    };
    r.map(|_| ()).map_err(|e| e.to_string())
}

/// place sentinels, then the operands (left first, as the builder's code does), call the instruction, read the result back
pub fn call<D: GD>(d: &mut D, ins: Instruction, left: &V, right: Option<&V>) -> Result<OpOutcome, String> {
    call_built(d, ins, left, right, false)
}

/// like `call`, with every structurally identical sub-value of the two operands built once and shared (same address)
pub fn call_sharing<D: GD>(d: &mut D, ins: Instruction, left: &V, right: Option<&V>) -> Result<OpOutcome, String> {
    call_built(d, ins, left, right, true)
}

fn call_built<D: GD>(d: &mut D, ins: Instruction, left: &V, right: Option<&V>, sharing: bool) -> Result<OpOutcome, String> {
    let s1 = d.add_number(SimpleNumber::Integer(-7001)).map_err(|e| e.to_string())?;
    let s2 = d.add_number(SimpleNumber::Integer(-7002)).map_err(|e| e.to_string())?;
    // a few instructions so that cursor + 1 is meaningful for apply
    let base = d.get_register_len();
    d.push_register(s1).map_err(|e| e.to_string())?;
    d.push_register(s2).map_err(|e| e.to_string())?;
    let mut memo = std::collections::HashMap::new();
    let la = if sharing { crate::model::value::build_value_sharing(d, left, &mut memo)? } else { build_value(d, left)? };
    let ra = match right {
        Some(r) => Some(if sharing { crate::model::value::build_value_sharing(d, r, &mut memo)? } else { build_value(d, r)? }),
        None => None,
    };
    d.push_register(la).map_err(|e| e.to_string())?;
    if let Some(ra) = ra {
        d.push_register(ra).map_err(|e| e.to_string())?;
    }
    let r = guard("op", || dispatch(d, ins));
    let (result, panicked) = match r {
        Err(p) => (Err(format!("panic@{}", p.loc)), Some(p.loc)),
        Ok(Err(e)) => (Err(e), None),
        Ok(Ok(())) => (Ok(V::Unit), None),
    };
    let len_after = d.get_register_len() as i64;
    let above = len_after - base as i64 - 2;
    let sentinels_intact = d.get_register(base) == Some(s1) && d.get_register(base + 1) == Some(s2);
    let result = match result {
        Ok(_) => {
            if above >= 1 {
                match d.get_register(d.get_register_len() - 1) {
                    Some(a) => Ok(readback(d, a)),
                    None => Err("result register unreadable".to_string()),
                }
            } else {
                Ok(V::Unreadable("no result register".into()))
            }
        }
        Err(e) => Err(e),
    };
    Ok(OpOutcome { result, left_above_sentinels: above, sentinels_intact, left_addr: la, right_addr: ra.unwrap_or(0), panicked })
}
