//! Independent operator table (Appendix A of DESIGN.md): level (lower binds tighter), fixity, associativity.
//! Transcribed from docs/src/precedence.md and the parser's priority map; where they disagree the repository's tests decide
//! (pair is right-to-left: tests/scripts/pair/precedence.garnish, parser test `double_pair`).

#[derive(Clone, Copy, PartialEq, Eq, Debug)]
pub enum Fix {
    Prefix,
    Suffix,
    BinL,
    BinR,
}

#[derive(Clone, Copy, Debug, PartialEq, Eq)]
pub struct OpInfo {
    pub text: &'static str,
    /// name of the parse-node definition this operator must produce
    pub def: &'static str,
    pub fix: Fix,
    pub level: u32,
}

const fn op(text: &'static str, def: &'static str, fix: Fix, level: u32) -> OpInfo {
    OpInfo { text, def, fix, level }
}

pub const SPACE_LIST_LEVEL: u32 = 220;
pub const GROUP_LEVEL: u32 = 20;

/// " " stands for the implicit space-list operator; "\n\n" for the blank-line separator.
pub const OPS: &[OpInfo] = &[
    op(".", "Access", Fix::BinL, 30),
    op("~~", "EmptyApply", Fix::Suffix, 40),
    op("_.", "AccessLeftInternal", Fix::Prefix, 50),
    op("._", "AccessRightInternal", Fix::Suffix, 60),
    op(".|", "AccessLengthInternal", Fix::Suffix, 60),
    op("#", "TypeOf", Fix::Prefix, 69),
    op("~#", "TypeCast", Fix::BinL, 70),
    op("++", "AbsoluteValue", Fix::Prefix, 75),
    op("--", "Opposite", Fix::Prefix, 75),
    op("!", "BitwiseNot", Fix::Prefix, 75),
    op("**", "ExponentialSign", Fix::BinL, 80),
    op("*", "MultiplicationSign", Fix::BinL, 90),
    op("/", "Division", Fix::BinL, 90),
    op("//", "IntegerDivision", Fix::BinL, 90),
    op("%", "Remainder", Fix::BinL, 90),
    op("+", "Addition", Fix::BinL, 100),
    op("-", "Subtraction", Fix::BinL, 100),
    op("<<", "BitwiseLeftShift", Fix::BinL, 110),
    op(">>", "BitwiseRightShift", Fix::BinL, 110),
    op("&", "BitwiseAnd", Fix::BinL, 111),
    op("^", "BitwiseXor", Fix::BinL, 112),
    op("|", "BitwiseOr", Fix::BinL, 113),
    op("f`", "PrefixApply", Fix::Prefix, 150),
    op("`f", "SuffixApply", Fix::Suffix, 151),
    op("`f`", "InfixApply", Fix::BinL, 152),
    op("..", "Range", Fix::BinL, 200),
    op(">..", "StartExclusiveRange", Fix::BinL, 200),
    op("..<", "EndExclusiveRange", Fix::BinL, 200),
    op(">..<", "ExclusiveRange", Fix::BinL, 200),
    op("=", "Pair", Fix::BinR, 210),
    op(" ", "List", Fix::BinL, SPACE_LIST_LEVEL),
    op("~", "PartialApply", Fix::BinL, 230),
    op("<>", "Concatenation", Fix::BinL, 240),
    op("<", "LessThan", Fix::BinL, 300),
    op("<=", "LessThanOrEqual", Fix::BinL, 300),
    op(">", "GreaterThan", Fix::BinL, 300),
    op(">=", "GreaterThanOrEqual", Fix::BinL, 300),
    op("==", "Equality", Fix::BinL, 400),
    op("!=", "Inequality", Fix::BinL, 400),
    op("#=", "TypeEqual", Fix::BinL, 400),
    op("!!", "Not", Fix::Prefix, 400),
    op("??", "Tis", Fix::Prefix, 400),
    op("&&", "And", Fix::BinL, 410),
    op("^^", "Xor", Fix::BinL, 420),
    op("||", "Or", Fix::BinL, 430),
    op("<~", "Apply", Fix::BinL, 550),
    op("~>", "ApplyTo", Fix::BinL, 550),
    op("^~", "Reapply", Fix::Prefix, 600),
    op("?>", "JumpIfTrue", Fix::BinL, 700),
    op("!>", "JumpIfFalse", Fix::BinL, 700),
    op("|>", "ElseJump", Fix::BinL, 800),
    op(",", "CommaList", Fix::BinL, 900),
    op(";", "ExpressionSeparator", Fix::BinL, 990),
    op("\n\n", "Subexpression", Fix::BinL, 1000),
];

pub fn find(text: &str) -> Option<&'static OpInfo> {
    OPS.iter().find(|o| o.text == text)
}

pub fn by_def(def: &str) -> Option<&'static OpInfo> {
    OPS.iter().find(|o| o.def == def)
}

/// one operator per (level, fixity)
pub fn level_representatives() -> Vec<&'static OpInfo> {
    let mut out: Vec<&'static OpInfo> = vec![];
    for o in OPS {
        if !out.iter().any(|x| x.level == o.level && x.fix == o.fix) {
            out.push(o);
        }
    }
    out
}
