//! Pool of source-level operand values of every type and shape, and the operator spellings applied to them
//! (shared by C06, C07 and others that need data-dependent instruction behaviour).

pub const VALUE_POOL: &[&str] = &[
    "5", "0", "--1", "100", "2.5", "2147483647", "\"abc\"", "\"\"", "\"é\"", "'ab'", "''", ":a", ":b", ":a.b", ":a.c", ":a.0", ":a.b.c", "(1 2)", "(1 2 3)", "(1, 2)", "((1 2) 3)", "(1 (2 3))", "(1 2 3 4 5 6)", "(,)", "(1,)",
    "(:a = 1, :b = 2)", "(:a = (:b = 1,),)", "(:a = 1, 5, :b = (7 8))", "(() :a = 5)", "(:b = 6 () :a = 5 ())", ":k = 1", "(1 = 2)", "(:a = :b = 3)", "(1..3)", "(0..0)", "(3..1)", "((1 2) <> (3 4))", "((1 2) <> 3)", "(\"a\" <> \"b\")", "('a' <> 'b')",
    "((1 2 3 4) <~ 1..2)", "(\"abcd\" <~ 1..2)", "('ab' . 0)", "(\"abc\" . 0)", "{ 5 }", "{ $ }", "{ $ + 1 }", "{ $ == 1 }", "{ 1 < 2 }", "()", "$?", "$!", "(#5)", "(#\"a\")", "$", "({ $ } ~ 1)", "(1 2 3 ~ 4)",
];

pub const BINARY_OPS: &[&str] = &[
    "+", "-", "*", "/", "//", "%", "**", "&", "|", "^", "<<", ">>", "&&", "||", "^^", "==", "!=", "#=", "<", "<=", ">", ">=", "=", ".", "<~", "~>", "~", "~#", "<>", "..", ">..", "..<", ">..<", "?>", "!>", ",", " ",
];

pub const PREFIX_OPS: &[&str] = &["++", "--", "!", "!!", "??", "#", "_."];
pub const SUFFIX_OPS: &[&str] = &["~~", "._", ".|"];

pub fn binary_program_count() -> u64 {
    (VALUE_POOL.len() * VALUE_POOL.len() * BINARY_OPS.len()) as u64
}

pub fn binary_program(i: u64) -> String {
    let n = VALUE_POOL.len() as u64;
    let op = BINARY_OPS[(i % BINARY_OPS.len() as u64) as usize];
    let r = i / BINARY_OPS.len() as u64;
    let a = VALUE_POOL[(r / n) as usize];
    let b = VALUE_POOL[(r % n) as usize];
    if op == " " { format!("({}) ({})", a, b) } else { format!("({}) {} ({})", a, op, b) }
}

pub fn unary_program_count() -> u64 {
    (VALUE_POOL.len() * (PREFIX_OPS.len() + SUFFIX_OPS.len())) as u64
}

pub fn unary_program(i: u64) -> String {
    let k = (PREFIX_OPS.len() + SUFFIX_OPS.len()) as u64;
    let v = VALUE_POOL[(i / k) as usize];
    let o = (i % k) as usize;
    if o < PREFIX_OPS.len() { format!("{} ({})", PREFIX_OPS[o], v) } else { format!("({}) {}", v, SUFFIX_OPS[o - PREFIX_OPS.len()]) }
}
