//! Reference token table (independent copy of the language's lexical rules) and per-class validity predicates.

use garnish_lang_compiler::lex::TokenType;
use garnish_lang_compiler::lex::TokenType as T;

/// Operator spellings of the language. A copy: if the lexer's own table changes, the two disagree.
pub const OPERATORS: &[(&str, TokenType)] = &[
    ("+", T::PlusSign),
    ("++", T::AbsoluteValue),
    ("-", T::Subtraction),
    ("--", T::Opposite),
    ("*", T::MultiplicationSign),
    ("**", T::ExponentialSign),
    ("/", T::Division),
    ("//", T::IntegerDivision),
    ("%", T::Remainder),
    ("!", T::BitwiseNot),
    ("&", T::BitwiseAnd),
    ("|", T::BitwiseOr),
    ("^", T::BitwiseXor),
    ("<<", T::BitwiseLeftShift),
    (">>", T::BitwiseRightShift),
    ("&&", T::And),
    ("||", T::Or),
    ("^^", T::Xor),
    ("!!", T::Not),
    ("??", T::Tis),
    ("()", T::UnitLiteral),
    ("{", T::StartExpression),
    ("}", T::EndExpression),
    ("(", T::StartGroup),
    (")", T::EndGroup),
    ("[", T::StartSideEffect),
    ("]", T::EndSideEffect),
    ("$", T::Value),
    ("$?", T::True),
    ("$!", T::False),
    (",", T::Comma),
    ("!>", T::JumpIfFalse),
    ("?>", T::JumpIfTrue),
    ("|>", T::ElseJump),
    ("<~", T::Apply),
    ("~>", T::ApplyTo),
    ("~", T::PartialApply),
    ("^~", T::Reapply),
    ("~~", T::EmptyApply),
    ("#", T::TypeOf),
    ("~#", T::TypeCast),
    ("#=", T::TypeEqual),
    ("==", T::Equality),
    ("!=", T::Inequality),
    ("<", T::LessThan),
    ("<=", T::LessThanOrEqual),
    (">", T::GreaterThan),
    (">=", T::GreaterThanOrEqual),
    ("=", T::Pair),
    (".", T::Period),
    ("._", T::RightInternal),
    ("_.", T::LeftInternal),
    (".|", T::LengthInternal),
    ("<>", T::Concatenation),
    ("..", T::Range),
    (">..", T::StartExclusiveRange),
    ("..<", T::EndExclusiveRange),
    (">..<", T::ExclusiveRange),
    (";;", T::ExpressionTerminator),
    (";", T::ExpressionSeparator),
];

pub fn operator_type(text: &str) -> Option<TokenType> {
    OPERATORS.iter().find(|(s, _)| *s == text).map(|(_, t)| *t)
}

pub fn is_operator_type(t: TokenType) -> bool {
    OPERATORS.iter().any(|(_, tt)| *tt == t)
}

pub fn is_identifier_char(c: char) -> bool {
    c.is_alphanumeric() || c == '_' || c == ':'
}

/// Characters that can neither start nor continue any token outside text/byte literals and line annotations.
pub fn is_dead_char(c: char) -> bool {
    if is_identifier_char(c) || c == '`' || c == '@' || c == '"' || c == '\'' {
        return false;
    }
    if c == ' ' || c == '\t' || c == '\r' || c == '\n' || c.is_ascii_whitespace() {
        return false;
    }
    // any character that occurs in an operator spelling
    !OPERATORS.iter().any(|(s, _)| s.contains(c))
}

fn quoted_valid(text: &str, q: char) -> Result<(), &'static str> {
    let chars: Vec<char> = text.chars().collect();
    let n = chars.iter().take_while(|c| **c == q).count();
    if n == 0 {
        return Err("no-opening-quote");
    }
    if n == chars.len() {
        // only quotes: the empty literal is exactly two quotes
        return if n == 2 { Ok(()) } else { Err("only-quotes") };
    }
    if n == 2 {
        return Err("two-quotes-then-content");
    }
    // closes at the first run of n quotes
    let rest = &chars[n..];
    let mut run = 0usize;
    for (i, c) in rest.iter().enumerate() {
        if *c == q {
            run += 1;
            if run == n {
                return if i == rest.len() - 1 { Ok(()) } else { Err("content-after-closing-run") };
            }
        } else {
            run = 0;
        }
    }
    Err("unterminated")
}

/// Is `text` a valid member of token class `t`?
pub fn class_valid(t: TokenType, text: &str) -> Result<(), &'static str> {
    if text.is_empty() {
        return Err("empty");
    }
    if is_operator_type(t) {
        return match operator_type(text) {
            Some(tt) if tt == t => Ok(()),
            Some(_) => Err("operator-spelling-of-other-type"),
            None => Err("not-an-operator-spelling"),
        };
    }
    let first = text.chars().next().unwrap();
    match t {
        T::Number => {
            let ok_start = first.is_numeric() || (first == '.' && text.chars().nth(1).map(|c| c.is_numeric()).unwrap_or(false));
            if !ok_start {
                return Err("bad-start");
            }
            if text.chars().filter(|c| *c == '.').count() > 1 {
                return Err("two-periods");
            }
            if !text.chars().all(|c| c.is_alphanumeric() || c == '_' || c == '.') {
                return Err("foreign-char");
            }
            Ok(())
        }
        T::Identifier => {
            if !text.chars().all(is_identifier_char) {
                return Err("foreign-char");
            }
            if first.is_numeric() {
                return Err("starts-with-digit");
            }
            if text == "_" || text == ":" {
                return Err("lone-underscore-or-colon");
            }
            // `:name` is a symbol, `::name` an identifier
            if first == ':' && text.chars().nth(1) != Some(':') {
                return Err("symbol-spelled-identifier");
            }
            Ok(())
        }
        T::Symbol => {
            if first != ':' {
                return Err("no-colon");
            }
            if text.chars().nth(1) == Some(':') {
                return Err("double-colon");
            }
            // a lone `:` is the empty symbol (pinned by the repository's lexer test `empty_symbol`)
            if !text.chars().all(is_identifier_char) {
                return Err("foreign-char");
            }
            Ok(())
        }
        T::PrefixIdentifier | T::SuffixIdentifier | T::InfixIdentifier => {
            let starts = first == '`';
            let ends = text.ends_with('`') && (text.chars().count() > 1 || t == T::PrefixIdentifier);
            let inner: String = text.trim_matches('`').to_string();
            // an empty name between/after backticks is not ruled out by any documentation: not judged
            if !inner.chars().all(is_identifier_char) {
                return Err("bad-inner");
            }
            if text.chars().filter(|c| *c == '`').count() != (starts as usize + ends as usize) {
                return Err("stray-backtick");
            }
            match (t, starts, ends) {
                (T::PrefixIdentifier, false, true) | (T::SuffixIdentifier, true, false) | (T::InfixIdentifier, true, true) => Ok(()),
                _ => Err("backticks-do-not-match-class"),
            }
        }
        T::CharList => quoted_valid(text, '"'),
        T::ByteList => quoted_valid(text, '\''),
        T::Whitespace => {
            // horizontal space, possibly with one line break
            if !text.chars().all(|c| c == ' ' || c == '\t' || c == '\r' || c.is_ascii_whitespace()) {
                return Err("foreign-char");
            }
            let breaks = text.chars().filter(|c| *c != ' ' && *c != '\t' && *c != '\r').count();
            if breaks > 1 {
                return Err("two-line-breaks-in-whitespace");
            }
            Ok(())
        }
        T::Subexpression => {
            if !text.chars().all(|c| c.is_ascii_whitespace()) {
                return Err("foreign-char");
            }
            let breaks = text.chars().filter(|c| *c != ' ' && *c != '\t' && *c != '\r').count();
            if breaks != 2 {
                return Err("not-exactly-two-line-breaks");
            }
            Ok(())
        }
        T::Annotation => {
            if first != '@' {
                return Err("no-at");
            }
            if !text.chars().skip(1).all(|c| c.is_alphanumeric() || c == '_') {
                return Err("foreign-char");
            }
            Ok(())
        }
        T::LineAnnotation => {
            if !text.starts_with("@@") {
                return Err("no-double-at");
            }
            // runs to the end of the line: a newline may only be the last character
            match text.find('\n') {
                Some(i) if i != text.len() - 1 => Err("continues-past-line-end"),
                _ => Ok(()),
            }
        }
        T::Unknown => Err("unknown-token-type"),
        _ => Err("unhandled-class"),
    }
}

/// Could the token have been extended by the next characters (maximal munch)?
pub fn could_extend(t: TokenType, text: &str, rest: &str) -> Option<&'static str> {
    let next = rest.chars().next()?;
    if is_operator_type(t) {
        // a longer operator spelling that is a prefix of text+rest
        for (s, _) in OPERATORS {
            if s.len() > text.len() && s.starts_with(text) && rest.starts_with(&s[text.len()..]) {
                return Some("longer-operator");
            }
        }
        return None;
    }
    match t {
        T::Identifier | T::Symbol => {
            if is_identifier_char(next) {
                return Some("identifier-continues");
            }
            None
        }
        T::Number => {
            if next.is_alphanumeric() || next == '_' {
                return Some("number-continues");
            }
            None
        }
        T::Annotation => {
            if next.is_alphanumeric() || next == '_' {
                return Some("annotation-continues");
            }
            None
        }
        T::Whitespace => {
            if next == ' ' || next == '\t' {
                return Some("whitespace-continues");
            }
            None
        }
        _ => None,
    }
}
