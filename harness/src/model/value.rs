//! Structural value model, read-back through trait getters only, and construction through the data API.

use crate::model::data::GD;
use garnish_lang_simple_data::{SimpleNumber, symbol_value};
use garnish_lang_traits::{Extents, GarnishDataType, SymbolListPart};
use std::fmt;

#[derive(Clone, Debug)]
pub enum V {
    Unit,
    True,
    False,
    Int(i32),
    Float(f64),
    Char(char),
    Byte(u8),
    /// symbol by its 64-bit value
    Sym(u64),
    SymList(Vec<SymPart>),
    Text(Vec<char>),
    Bytes(Vec<u8>),
    Pair(Box<V>, Box<V>),
    List(Vec<V>),
    Concat(Box<V>, Box<V>),
    Range(Box<V>, Box<V>),
    Slice(Box<V>, Box<V>),
    Partial(Box<V>, Box<V>),
    /// expression value; the payload is the jump-table index when read back, or a model id
    Expr(usize),
    External(usize),
    Type(GarnishDataType),
    /// read-back failed
    Unreadable(String),
}

#[derive(Clone, Debug, PartialEq)]
pub enum SymPart {
    Sym(u64),
    Num(i32),
}

pub fn sym(name: &str) -> V {
    V::Sym(symbol_value(name))
}

pub fn text(s: &str) -> V {
    V::Text(s.chars().collect())
}

pub fn pair(l: V, r: V) -> V {
    V::Pair(Box::new(l), Box::new(r))
}

impl V {
    pub fn type_name(&self) -> &'static str {
        match self {
            V::Unit => "Unit",
            V::True => "True",
            V::False => "False",
            V::Int(_) | V::Float(_) => "Number",
            V::Char(_) => "Char",
            V::Byte(_) => "Byte",
            V::Sym(_) => "Symbol",
            V::SymList(_) => "SymbolList",
            V::Text(_) => "CharList",
            V::Bytes(_) => "ByteList",
            V::Pair(..) => "Pair",
            V::List(_) => "List",
            V::Concat(..) => "Concatenation",
            V::Range(..) => "Range",
            V::Slice(..) => "Slice",
            V::Partial(..) => "Partial",
            V::Expr(_) => "Expression",
            V::External(_) => "External",
            V::Type(_) => "Type",
            V::Unreadable(_) => "Unreadable",
        }
    }
    pub fn truthy(&self) -> bool {
        !matches!(self, V::Unit | V::False)
    }
    pub fn size(&self) -> usize {
        match self {
            V::Pair(a, b) | V::Concat(a, b) | V::Range(a, b) | V::Slice(a, b) | V::Partial(a, b) => 1 + a.size() + b.size(),
            V::List(items) => 1 + items.iter().map(|i| i.size()).sum::<usize>(),
            V::Text(t) => 1 + t.len() / 8,
            _ => 1,
        }
    }
    pub fn depth(&self) -> usize {
        match self {
            V::Pair(a, b) | V::Concat(a, b) | V::Range(a, b) | V::Slice(a, b) | V::Partial(a, b) => 1 + a.depth().max(b.depth()),
            V::List(items) => 1 + items.iter().map(|i| i.depth()).max().unwrap_or(0),
            _ => 0,
        }
    }
}

/// Exact structural identity (what a read-back must reproduce). Floats: bit-equal or both NaN or both zero.
/// Expression values are equal to any expression value (their index is an implementation detail).
pub fn same(a: &V, b: &V) -> bool {
    match (a, b) {
        (V::Unit, V::Unit) | (V::True, V::True) | (V::False, V::False) => true,
        (V::Int(x), V::Int(y)) => x == y,
        (V::Float(x), V::Float(y)) => x.to_bits() == y.to_bits() || (x.is_nan() && y.is_nan()) || (*x == 0.0 && *y == 0.0),
        (V::Char(x), V::Char(y)) => x == y,
        (V::Byte(x), V::Byte(y)) => x == y,
        (V::Sym(x), V::Sym(y)) => x == y,
        (V::SymList(x), V::SymList(y)) => x == y,
        (V::Text(x), V::Text(y)) => x == y,
        (V::Bytes(x), V::Bytes(y)) => x == y,
        (V::Pair(a1, b1), V::Pair(a2, b2)) | (V::Concat(a1, b1), V::Concat(a2, b2)) | (V::Range(a1, b1), V::Range(a2, b2)) | (V::Slice(a1, b1), V::Slice(a2, b2)) | (V::Partial(a1, b1), V::Partial(a2, b2)) => {
            same(a1, a2) && same(b1, b2)
        }
        (V::List(x), V::List(y)) => x.len() == y.len() && x.iter().zip(y.iter()).all(|(p, q)| same(p, q)),
        (V::Expr(_), V::Expr(_)) => true,
        (V::External(x), V::External(y)) => x == y,
        (V::Type(x), V::Type(y)) => x == y,
        _ => false,
    }
}

impl fmt::Display for V {
    fn fmt(&self, f: &mut fmt::Formatter<'_>) -> fmt::Result {
        match self {
            V::Unit => write!(f, "()"),
            V::True => write!(f, "$?"),
            V::False => write!(f, "$!"),
            V::Int(i) => write!(f, "{}", i),
            V::Float(x) => write!(f, "{:?}f", x),
            V::Char(c) => write!(f, "char{:?}", c),
            V::Byte(b) => write!(f, "byte{}", b),
            V::Sym(s) => write!(f, ":#{:x}", s & 0xffff),
            V::SymList(p) => {
                write!(f, "symlist[")?;
                for (i, x) in p.iter().enumerate() {
                    if i > 0 {
                        write!(f, ".")?;
                    }
                    match x {
                        SymPart::Sym(s) => write!(f, "#{:x}", s & 0xffff)?,
                        SymPart::Num(n) => write!(f, "{}", n)?,
                    }
                }
                write!(f, "]")
            }
            V::Text(t) => write!(f, "{:?}", t.iter().collect::<String>()),
            V::Bytes(b) => write!(f, "bytes{:?}", b),
            V::Pair(a, b) => write!(f, "({} = {})", a, b),
            V::List(items) => {
                write!(f, "(")?;
                for (i, x) in items.iter().enumerate() {
                    if i > 0 {
                        write!(f, ", ")?;
                    }
                    write!(f, "{}", x)?;
                }
                if items.len() < 2 {
                    write!(f, ",")?;
                }
                write!(f, ")")
            }
            V::Concat(a, b) => write!(f, "({} <> {})", a, b),
            V::Range(a, b) => write!(f, "range({}, {})", a, b),
            V::Slice(a, b) => write!(f, "slice({}, {})", a, b),
            V::Partial(a, b) => write!(f, "({} ~ {})", a, b),
            V::Expr(i) => write!(f, "expr#{}", i),
            V::External(i) => write!(f, "external#{}", i),
            V::Type(t) => write!(f, "type:{:?}", t),
            V::Unreadable(w) => write!(f, "<unreadable: {}>", w),
        }
    }
}

fn num_to_v(n: SimpleNumber) -> V {
    match n {
        SimpleNumber::Integer(i) => V::Int(i),
        SimpleNumber::Float(f) => V::Float(f),
    }
}

/// Read a value back through GarnishData getters only.
pub fn readback<D: GD>(d: &D, addr: usize) -> V {
    readback_depth(d, addr, 0)
}

fn readback_depth<D: GD>(d: &D, addr: usize, depth: usize) -> V {
    if depth > 64 {
        return V::Unreadable("nesting deeper than 64".into());
    }
    let t = match d.get_data_type(addr) {
        Ok(t) => t,
        Err(e) => return V::Unreadable(format!("get_data_type({}): {}", addr, e)),
    };
    let two = |r: Result<(usize, usize), garnish_lang_simple_data::DataError>, mk: fn(Box<V>, Box<V>) -> V| -> V {
        match r {
            Ok((a, b)) => mk(Box::new(readback_depth(d, a, depth + 1)), Box::new(readback_depth(d, b, depth + 1))),
            Err(e) => V::Unreadable(e.to_string()),
        }
    };
    let all = || Extents::new(SimpleNumber::Integer(0), SimpleNumber::Integer(i32::MAX));
    match t {
        GarnishDataType::Unit => V::Unit,
        GarnishDataType::True => V::True,
        GarnishDataType::False => V::False,
        GarnishDataType::Number => d.get_number(addr).map(num_to_v).unwrap_or_else(|e| V::Unreadable(e.to_string())),
        GarnishDataType::Char => d.get_char(addr).map(V::Char).unwrap_or_else(|e| V::Unreadable(e.to_string())),
        GarnishDataType::Byte => d.get_byte(addr).map(V::Byte).unwrap_or_else(|e| V::Unreadable(e.to_string())),
        GarnishDataType::Symbol => d.get_symbol(addr).map(V::Sym).unwrap_or_else(|e| V::Unreadable(e.to_string())),
        GarnishDataType::Type => d.get_type(addr).map(V::Type).unwrap_or_else(|e| V::Unreadable(e.to_string())),
        GarnishDataType::Expression => d.get_expression(addr).map(V::Expr).unwrap_or_else(|e| V::Unreadable(e.to_string())),
        GarnishDataType::External => d.get_external(addr).map(V::External).unwrap_or_else(|e| V::Unreadable(e.to_string())),
        GarnishDataType::CharList => match d.get_char_list_iter(addr, all()) {
            Ok(it) => V::Text(it.collect()),
            Err(e) => V::Unreadable(e.to_string()),
        },
        GarnishDataType::ByteList => match d.get_byte_list_iter(addr, all()) {
            Ok(it) => V::Bytes(it.collect()),
            Err(e) => V::Unreadable(e.to_string()),
        },
        GarnishDataType::SymbolList => match d.get_symbol_list_iter(addr, all()) {
            Ok(it) => V::SymList(
                it.map(|p| match p {
                    SymbolListPart::Symbol(s) => SymPart::Sym(s),
                    SymbolListPart::Number(n) => match n {
                        SimpleNumber::Integer(i) => SymPart::Num(i),
                        SimpleNumber::Float(f) => SymPart::Num(f as i32),
                    },
                })
                .collect(),
            ),
            Err(e) => V::Unreadable(e.to_string()),
        },
        GarnishDataType::Pair => two(d.get_pair(addr), V::Pair),
        GarnishDataType::Concatenation => two(d.get_concatenation(addr), V::Concat),
        GarnishDataType::Range => two(d.get_range(addr), V::Range),
        GarnishDataType::Slice => two(d.get_slice(addr), V::Slice),
        GarnishDataType::Partial => two(d.get_partial(addr), V::Partial),
        GarnishDataType::List => {
            let len = match d.get_list_len(addr) {
                Ok(l) => l,
                Err(e) => return V::Unreadable(e.to_string()),
            };
            if len > 100_000 {
                return V::Unreadable("list longer than 100000".into());
            }
            let mut items = Vec::with_capacity(len);
            for i in 0..len {
                match d.get_list_item(addr, SimpleNumber::Integer(i as i32)) {
                    Ok(Some(a)) => items.push(readback_depth(d, a, depth + 1)),
                    Ok(None) => items.push(V::Unreadable(format!("list item {} of {} absent", i, len))),
                    Err(e) => items.push(V::Unreadable(format!("list item {} of {}: {}", i, len, e))),
                }
            }
            V::List(items)
        }
        GarnishDataType::Invalid | GarnishDataType::Custom => V::Unreadable(format!("{:?} at {}", t, addr)),
    }
}

pub fn contains_unreadable(v: &V) -> Option<String> {
    match v {
        V::Unreadable(w) => Some(w.clone()),
        V::Pair(a, b) | V::Concat(a, b) | V::Range(a, b) | V::Slice(a, b) | V::Partial(a, b) => contains_unreadable(a).or_else(|| contains_unreadable(b)),
        V::List(items) => items.iter().find_map(contains_unreadable),
        _ => None,
    }
}

/// Construct a value through the data API (add_* / start_list, add_to_list, end_list); every sub-value is created anew.
pub fn build_value<D: GD>(d: &mut D, v: &V) -> Result<usize, String> {
    build_value_memo(d, v, &mut None)
}

/// Like `build_value`, but structurally identical sub-values are created once and *shared*: the same address is used
/// wherever the value occurs again (within this call and across calls that pass the same memo).
pub fn build_value_sharing<D: GD>(d: &mut D, v: &V, memo: &mut std::collections::HashMap<String, usize>) -> Result<usize, String> {
    let mut m = Some(std::mem::take(memo));
    let r = build_value_memo(d, v, &mut m);
    *memo = m.unwrap_or_default();
    r
}

fn build_value_memo<D: GD>(d: &mut D, v: &V, memo: &mut Option<std::collections::HashMap<String, usize>>) -> Result<usize, String> {
    let key = if memo.is_some() { Some(format!("{:?}", v)) } else { None };
    if let (Some(m), Some(k)) = (memo.as_ref(), key.as_ref()) {
        if let Some(a) = m.get(k) {
            return Ok(*a);
        }
    }
    let addr = build_value_inner(d, v, memo)?;
    if let (Some(m), Some(k)) = (memo.as_mut(), key) {
        m.insert(k, addr);
    }
    Ok(addr)
}

fn build_value_inner<D: GD>(d: &mut D, v: &V, memo: &mut Option<std::collections::HashMap<String, usize>>) -> Result<usize, String> {
    let e = |x: garnish_lang_simple_data::DataError| x.to_string();
    Ok(match v {
        V::Unit => d.add_unit().map_err(e)?,
        V::True => d.add_true().map_err(e)?,
        V::False => d.add_false().map_err(e)?,
        V::Int(i) => d.add_number(SimpleNumber::Integer(*i)).map_err(e)?,
        V::Float(f) => d.add_number(SimpleNumber::Float(*f)).map_err(e)?,
        V::Char(c) => d.add_char(*c).map_err(e)?,
        V::Byte(b) => d.add_byte(*b).map_err(e)?,
        V::Sym(s) => d.add_symbol(*s).map_err(e)?,
        V::Type(t) => d.add_type(*t).map_err(e)?,
        V::Expr(i) => d.add_expression(*i).map_err(e)?,
        V::External(i) => d.add_external(*i).map_err(e)?,
        V::Text(t) => {
            // through the literal parser: quote and escape
            let mut lit = String::from("\"");
            for c in t {
                match c {
                    '\\' => lit.push_str("\\\\"),
                    '"' => lit.push_str("\\\""),
                    '\n' => lit.push_str("\\n"),
                    '\t' => lit.push_str("\\t"),
                    '\r' => lit.push_str("\\r"),
                    '\0' => lit.push_str("\\0"),
                    c => lit.push(*c),
                }
            }
            lit.push('"');
            d.parse_add_char_list(&lit).map_err(e)?
        }
        V::Bytes(b) => {
            let lit = if b.is_empty() { "''".to_string() } else { format!("''{}''", b.iter().map(|x| x.to_string()).collect::<Vec<_>>().join(" ")) };
            d.parse_add_byte_list(&lit).map_err(e)?
        }
        V::SymList(parts) => {
            // merge pairwise from symbols / numbers
            let mut addrs = vec![];
            for p in parts {
                addrs.push(match p {
                    SymPart::Sym(s) => d.add_symbol(*s).map_err(e)?,
                    SymPart::Num(n) => d.add_number(SimpleNumber::Integer(*n)).map_err(e)?,
                });
            }
            if addrs.len() < 2 {
                return Err("symbol list needs two parts".into());
            }
            let mut acc = d.merge_to_symbol_list(addrs[0], addrs[1]).map_err(e)?;
            for a in &addrs[2..] {
                acc = d.merge_to_symbol_list(acc, *a).map_err(e)?;
            }
            acc
        }
        V::Pair(a, b) => {
            let x = build_value_memo(d, a, memo)?;
            let y = build_value_memo(d, b, memo)?;
            d.add_pair((x, y)).map_err(e)?
        }
        V::Concat(a, b) => {
            let x = build_value_memo(d, a, memo)?;
            let y = build_value_memo(d, b, memo)?;
            d.add_concatenation(x, y).map_err(e)?
        }
        V::Range(a, b) => {
            let x = build_value_memo(d, a, memo)?;
            let y = build_value_memo(d, b, memo)?;
            d.add_range(x, y).map_err(e)?
        }
        V::Slice(a, b) => {
            let x = build_value_memo(d, a, memo)?;
            let y = build_value_memo(d, b, memo)?;
            d.add_slice(x, y).map_err(e)?
        }
        V::Partial(a, b) => {
            let x = build_value_memo(d, a, memo)?;
            let y = build_value_memo(d, b, memo)?;
            d.add_partial(x, y).map_err(e)?
        }
        V::List(items) => {
            let mut addrs = vec![];
            for i in items {
                addrs.push(build_value_memo(d, i, memo)?);
            }
            let mut l = d.start_list(addrs.len()).map_err(e)?;
            for a in addrs {
                l = d.add_to_list(l, a).map_err(e)?;
            }
            d.end_list(l).map_err(e)?
        }
        V::Unreadable(w) => return Err(format!("cannot build unreadable: {}", w)),
    })
}
