//! Shared view of the two shipped data implementations.

use garnish_lang_simple_data::{BasicGarnishData, DataError, NoOpCompanion, SimpleGarnishData, SimpleNumber};
use garnish_lang_traits::GarnishData;

pub trait GD: GarnishData<Error = DataError, Symbol = u64, Byte = u8, Char = char, Number = SimpleNumber, Size = usize> {}
impl<T> GD for T where T: GarnishData<Error = DataError, Symbol = u64, Byte = u8, Char = char, Number = SimpleNumber, Size = usize> {}

#[derive(Clone, Copy, PartialEq, Eq, Debug)]
pub enum Impl {
    Simple,
    Basic,
}

impl Impl {
    pub fn name(self) -> &'static str {
        match self {
            Impl::Simple => "Simple",
            Impl::Basic => "Basic",
        }
    }
    pub const BOTH: [Impl; 2] = [Impl::Simple, Impl::Basic];
}

pub fn new_simple() -> SimpleGarnishData {
    SimpleGarnishData::new()
}

pub fn new_basic() -> BasicGarnishData<(), NoOpCompanion> {
    BasicGarnishData::new(NoOpCompanion::new()).expect("BasicGarnishData::new")
}
