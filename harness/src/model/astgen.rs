//! Core-language ASTs (as Sx trees without Group nodes): unranking enumerator, random generator, minimal-parenthesis printer.

use crate::engine::tape::Tape;
use crate::model::optable::{self, Fix};
use crate::model::refparse::{Pratt, Tok};
use crate::model::sx::Sx;

pub const LEAVES: &[(&str, &str)] = &[
    ("Number", "1"),
    ("Number", "2.5"),
    ("CharList", "\"a\""),
    ("Symbol", ":k"),
    ("Unit", "()"),
    ("True", "$?"),
    ("False", "$!"),
    ("Value", "$"),
    ("Identifier", "k"),
    ("Identifier", "u"),
];

/// richer pool for random programs
pub const LEAVES_RICH: &[(&str, &str)] = &[
    ("Number", "0"),
    ("Number", "1"),
    ("Number", "2"),
    ("Number", "3"),
    ("Number", "7"),
    ("Number", "31"),
    ("Number", "32"),
    ("Number", "2147483647"),
    ("Number", "2.5"),
    ("Number", "0.5"),
    ("CharList", "\"a\""),
    ("CharList", "\"ab\""),
    ("CharList", "\"\""),
    ("Symbol", ":k"),
    ("Symbol", ":j"),
    ("Symbol", ":z"),
    ("Unit", "()"),
    ("True", "$?"),
    ("False", "$!"),
    ("Value", "$"),
    ("Value", "$"),
    ("Identifier", "k"),
    ("Identifier", "j"),
    ("Identifier", "u"),
];

/// unary constructs: operator definitions plus the `{ }` wrapper
pub const UNARY: &[&str] = &["AbsoluteValue", "Opposite", "BitwiseNot", "Not", "Tis", "AccessLeftInternal", "AccessRightInternal", "AccessLengthInternal", "EmptyApply", "NestedExpression", "Reapply"];

pub const BINARY: &[&str] = &[
    "Addition", "Subtraction", "MultiplicationSign", "Division", "IntegerDivision", "Remainder", "ExponentialSign", "BitwiseAnd", "BitwiseOr", "BitwiseXor", "BitwiseLeftShift", "BitwiseRightShift", "LessThan",
    "LessThanOrEqual", "GreaterThan", "GreaterThanOrEqual", "Equality", "Inequality", "And", "Or", "Xor", "Pair", "List", "CommaList", "Access", "Apply", "ApplyTo", "JumpIfTrue", "JumpIfFalse", "ElseJump",
    "ExpressionSeparator", "Subexpression",
];

fn unary_node(def: &str, child: Sx) -> Sx {
    match def {
        "NestedExpression" => Sx::node(def, None, Some(child)),
        d => match optable::by_def(d).map(|o| o.fix) {
            Some(Fix::Suffix) => Sx::node(d, Some(child), None),
            _ => Sx::node(d, None, Some(child)),
        },
    }
}

/// an alphabet of constructs to enumerate trees over
#[derive(Clone, Copy)]
pub struct Alphabet {
    pub leaves: &'static [(&'static str, &'static str)],
    pub unary: &'static [&'static str],
    pub binary: &'static [&'static str],
}

pub const CORE: Alphabet = Alphabet { leaves: LEAVES, unary: UNARY, binary: BINARY };

/// control-flow skeletons: conditionals, else chains, short-circuit operators and explicit parentheses (which detach a
/// conditional from a chain) over constant conditions (`$!` false, `1` true and a value), deep enough (8 nodes) for a conditional inside the arm or
/// default of another one
pub const CONTROL: Alphabet = Alphabet {
    leaves: &[("False", "$!"), ("Number", "1")],
    unary: &["Not", "Tis", "Group"],
    binary: &["JumpIfTrue", "JumpIfFalse", "ElseJump", "And", "Or", "Addition"],
};

/// source text of the i-th control-flow skeleton with at most `max_nodes` nodes (spaced layout), if it is printable
pub fn control_source(index: u64, max_nodes: usize) -> Option<String> {
    let ast = CONTROL.unrank(index, max_nodes)?;
    let printed = if ast.contains_def("Group") { printable_keep_groups(&ast) } else { printable(&ast) };
    printed.map(|(toks, _, _)| crate::model::refparse::render(&toks, crate::model::refparse::Layout::Spaced))
}

impl Alphabet {
    /// number of trees with exactly n nodes
    pub fn count_exact(&self, n: usize, memo: &mut Vec<u64>) -> u64 {
        while memo.len() <= n {
            let k = memo.len();
            let v = if k == 0 {
                0
            } else if k == 1 {
                self.leaves.len() as u64
            } else {
                let mut t = self.unary.len() as u64 * memo[k - 1];
                let mut s = 0u64;
                for i in 1..=(k - 2) {
                    s += memo[i] * memo[k - 1 - i];
                }
                t += self.binary.len() as u64 * s;
                t
            };
            memo.push(v);
        }
        memo[n]
    }

    pub fn count_up_to(&self, max_nodes: usize) -> u64 {
        let mut memo = vec![];
        (1..=max_nodes).map(|n| self.count_exact(n, &mut memo)).sum()
    }

    /// index -> tree, all trees with 1 node first, then 2, ... (size order)
    pub fn unrank(&self, mut index: u64, max_nodes: usize) -> Option<Sx> {
        let mut memo = vec![];
        for n in 1..=max_nodes {
            let c = self.count_exact(n, &mut memo);
            if index < c {
                return Some(self.unrank_exact(index, n, &mut memo));
            }
            index -= c;
        }
        None
    }

    fn unrank_exact(&self, mut index: u64, n: usize, memo: &mut Vec<u64>) -> Sx {
        if n == 1 {
            let (d, t) = self.leaves[index as usize % self.leaves.len()];
            return Sx::leaf(d, t);
        }
        let un = self.unary.len() as u64 * self.count_exact(n - 1, memo);
        if index < un {
            let sub = self.count_exact(n - 1, memo);
            let op = self.unary[(index / sub) as usize];
            return unary_node(op, self.unrank_exact(index % sub, n - 1, memo));
        }
        index -= un;
        let mut per_op = 0u64;
        for i in 1..=(n - 2) {
            per_op += self.count_exact(i, memo) * self.count_exact(n - 1 - i, memo);
        }
        let op = self.binary[(index / per_op) as usize];
        let mut r = index % per_op;
        for i in 1..=(n - 2) {
            let block = self.count_exact(i, memo) * self.count_exact(n - 1 - i, memo);
            if r < block {
                let rc = self.count_exact(n - 1 - i, memo);
                let left = self.unrank_exact(r / rc, i, memo);
                let right = self.unrank_exact(r % rc, n - 1 - i, memo);
                // side-effect blocks as binary constructs (body, value): the value must be a leaf
                if op == "BlockBefore" || op == "BlockAfter" {
                    let block = Box::new(Sx::node("SideEffect", None, Some(left)));
                    return match right {
                        Sx::Leaf(d, t) if op == "BlockBefore" => Sx::ValNode(d, t, Some(block), None),
                        Sx::Leaf(d, t) => Sx::ValNode(d, t, None, Some(block)),
                        _ => Sx::Broken("block-needs-a-plain-value".into()),
                    };
                }
                return Sx::node(op, Some(left), Some(right));
            }
            r -= block;
        }
        Sx::leaf("Unit", "()")
    }
}

pub fn count_up_to(max_nodes: usize) -> u64 {
    CORE.count_up_to(max_nodes)
}

pub fn unrank(index: u64, max_nodes: usize) -> Option<Sx> {
    CORE.unrank(index, max_nodes)
}

// ---------------------------------------------------------------------------------------------
// random generator (type-unaware but biased towards well-formed conditionals, loops with counters, keyed inputs)

pub fn random_ast(t: &mut Tape, max_depth: u32) -> Sx {
    gen_seq(t, 0, max_depth)
}

/// a body: statements separated by `;` / blank lines (separators only here, never below an operator: inside the
/// parentheses that would need they are white space)
fn gen_seq(t: &mut Tape, depth: u32, max_depth: u32) -> Sx {
    let n = [1, 1, 1, 2, 2, 3][t.choose(6)];
    // statements and the separators between them; `;` binds tighter than a blank line, so runs of `;` are grouped
    // first and the tree never needs parentheses around a separator (inside parentheses a blank line is white space)
    let mut runs: Vec<Sx> = vec![gen_ast(t, depth + 1, max_depth, true)];
    for _ in 1..n {
        let semicolon = t.flag();
        let next = gen_ast(t, depth + 1, max_depth, true);
        if semicolon {
            let last = runs.pop().unwrap();
            runs.push(Sx::node("ExpressionSeparator", Some(last), Some(next)));
        } else {
            runs.push(next);
        }
    }
    let mut it = runs.into_iter();
    let mut acc = it.next().unwrap();
    for r in it {
        acc = Sx::node("Subexpression", Some(acc), Some(r));
    }
    acc
}

fn leaf(t: &mut Tape) -> Sx {
    let (d, x) = LEAVES_RICH[t.choose(LEAVES_RICH.len())];
    Sx::leaf(d, x)
}

fn gen_ast(t: &mut Tape, depth: u32, max_depth: u32, tail: bool) -> Sx {
    if depth >= max_depth || t.exhausted() {
        return leaf(t);
    }
    // weights: leaf, unary, arithmetic/bitwise, compare/equal/logic, pair/list, access, conditional, apply-expression, sequencing, side effect, counter loop
    let w = [14u32, 8, 14, 12, 12, 8, 10, 9, 0, 4, if tail && depth <= 2 { 3 } else { 0 }];
    match t.weighted(&w) {
        0 => leaf(t),
        1 => {
            let ops = ["AbsoluteValue", "Opposite", "BitwiseNot", "Not", "Tis", "AccessLeftInternal", "AccessRightInternal", "AccessLengthInternal"];
            unary_node(ops[t.choose(ops.len())], gen_ast(t, depth + 1, max_depth, false))
        }
        2 => {
            let ops = ["Addition", "Subtraction", "MultiplicationSign", "Division", "IntegerDivision", "Remainder", "ExponentialSign", "BitwiseAnd", "BitwiseOr", "BitwiseXor", "BitwiseLeftShift", "BitwiseRightShift"];
            Sx::node(ops[t.choose(ops.len())], Some(gen_ast(t, depth + 1, max_depth, false)), Some(gen_ast(t, depth + 1, max_depth, false)))
        }
        3 => {
            let ops = ["LessThan", "LessThanOrEqual", "GreaterThan", "GreaterThanOrEqual", "Equality", "Inequality", "And", "Or", "Xor"];
            Sx::node(ops[t.choose(ops.len())], Some(gen_ast(t, depth + 1, max_depth, false)), Some(gen_ast(t, depth + 1, max_depth, false)))
        }
        4 => {
            // pair / space list / comma list, keyed pairs often
            match t.choose(4) {
                0 => Sx::node("Pair", Some(Sx::leaf("Symbol", [":k", ":j", ":z"][t.choose(3)])), Some(gen_ast(t, depth + 1, max_depth, false))),
                1 => Sx::node("Pair", Some(gen_ast(t, depth + 1, max_depth, false)), Some(gen_ast(t, depth + 1, max_depth, false))),
                2 => {
                    let n = 2 + t.choose(3);
                    let mut acc = gen_ast(t, depth + 1, max_depth, false);
                    for _ in 1..n {
                        acc = Sx::node("List", Some(acc), Some(gen_ast(t, depth + 1, max_depth, false)));
                    }
                    acc
                }
                _ => {
                    let n = 2 + t.choose(3);
                    let mut acc = gen_ast(t, depth + 1, max_depth, false);
                    for _ in 1..n {
                        acc = Sx::node("CommaList", Some(acc), Some(gen_ast(t, depth + 1, max_depth, false)));
                    }
                    acc
                }
            }
        }
        5 => {
            let right = match t.choose(3) {
                0 => Sx::leaf("Identifier", ["k", "j", "z"][t.choose(3)]),
                1 => Sx::leaf("Number", ["0", "1", "2", "5"][t.choose(4)]),
                _ => gen_ast(t, depth + 1, max_depth, false),
            };
            Sx::node("Access", Some(gen_ast(t, depth + 1, max_depth, false)), Some(right))
        }
        6 => {
            // conditional, usually with a default arm; chains of 1..3 conditions
            let n = 1 + t.choose(3);
            let mut acc: Option<Sx> = None;
            for _ in 0..n {
                let c = Sx::node(if t.flag() { "JumpIfTrue" } else { "JumpIfFalse" }, Some(gen_ast(t, depth + 1, max_depth, false)), Some(gen_ast(t, depth + 1, max_depth, tail)));
                acc = Some(match acc {
                    None => c,
                    Some(a) => Sx::node("ElseJump", Some(a), Some(c)),
                });
            }
            let acc = acc.unwrap();
            if n == 1 && t.chance(100) {
                acc
            } else {
                Sx::node("ElseJump", Some(acc), Some(gen_ast(t, depth + 1, max_depth, tail)))
            }
        }
        7 => {
            // nested expression applied in one of the three forms
            let body = gen_seq(t, depth + 1, max_depth);
            let f = Sx::node("NestedExpression", None, Some(body));
            match t.choose(4) {
                0 => Sx::node("Apply", Some(f), Some(gen_ast(t, depth + 1, max_depth, false))),
                1 => Sx::node("ApplyTo", Some(gen_ast(t, depth + 1, max_depth, false)), Some(f)),
                2 => Sx::node("EmptyApply", Some(f), None),
                _ => Sx::node("Apply", Some(gen_ast(t, depth + 1, max_depth, false)), Some(gen_ast(t, depth + 1, max_depth, false))),
            }
        }
        8 => {
            let sep = if t.flag() { "ExpressionSeparator" } else { "Subexpression" };
            Sx::node(sep, Some(gen_ast(t, depth + 1, max_depth, true)), Some(gen_ast(t, depth + 1, max_depth, true)))
        }
        9 => {
            // side effect attached to a literal
            let (d, x) = LEAVES_RICH[t.choose(LEAVES_RICH.len())];
            let body = Sx::node("SideEffect", None, Some(gen_ast(t, depth + 1, max_depth, false)));
            // trailing form mostly; the leading form (`[ body ] value`) too: where a value precedes it the parsers attach the
            // block to that value instead, which the reference parser reads the same way from the printed text
            if t.chance(90) {
                Sx::ValNode(d.to_string(), x.to_string(), Some(Box::new(body)), None)
            } else {
                Sx::ValNode(d.to_string(), x.to_string(), None, Some(Box::new(body)))
            }
        }
        _ => {
            // bounded reapply loop: { $ < N ?> ^~ $ + 1 |> <result> } <~ 0
            let n = ["1", "2", "3", "5"][t.choose(4)];
            let cond = Sx::node("LessThan", Some(Sx::leaf("Value", "$")), Some(Sx::leaf("Number", n)));
            let step = Sx::node("Reapply", None, Some(Sx::node("Addition", Some(Sx::leaf("Value", "$")), Some(Sx::leaf("Number", "1")))));
            let arm = Sx::node("JumpIfTrue", Some(cond), Some(step));
            let body = Sx::node("ElseJump", Some(arm), Some(gen_ast(t, depth + 2, max_depth, false)));
            Sx::node("Apply", Some(Sx::node("NestedExpression", None, Some(body))), Some(Sx::leaf("Number", "0")))
        }
    }
}

// ---------------------------------------------------------------------------------------------
// printer: minimal parentheses according to the operator table

fn level_of(n: &Sx) -> Option<(u32, Fix)> {
    match n {
        Sx::Node(d, _, _) => match d.as_str() {
            "Group" | "NestedExpression" | "SideEffect" => None,
            d => optable::by_def(d).map(|o| (o.level, o.fix)),
        },
        _ => None,
    }
}

pub fn to_tokens(n: &Sx, out: &mut Vec<Tok>) {
    match n {
        Sx::Leaf(d, t) => out.push(Tok::Atom(leak(d), t.clone())),
        Sx::Broken(_) => {}
        Sx::ValNode(d, t, l, r) => {
            if let Some(l) = l {
                side_tokens(l, out);
            }
            out.push(Tok::Atom(leak(d), t.clone()));
            if let Some(r) = r {
                side_tokens(r, out);
            }
        }
        Sx::Node(d, l, r) => match d.as_str() {
            "Group" => {
                out.push(Tok::Open('('));
                if let Some(r) = r {
                    to_tokens(r, out);
                }
                out.push(Tok::Close(')'));
            }
            "NestedExpression" => {
                out.push(Tok::Open('{'));
                if let Some(r) = r {
                    to_tokens(r, out);
                }
                out.push(Tok::Close('}'));
            }
            d => {
                let op = match optable::by_def(d) {
                    Some(o) => o,
                    None => return,
                };
                let emit = |child: &Sx, parens: bool, out: &mut Vec<Tok>| {
                    if parens {
                        out.push(Tok::Open('('));
                        to_tokens(child, out);
                        out.push(Tok::Close(')'));
                    } else {
                        to_tokens(child, out);
                    }
                };
                match op.fix {
                    Fix::Prefix => {
                        out.push(Tok::Op(op));
                        if let Some(c) = r {
                            let p = match level_of(c) {
                                Some((lc, fc)) => lc > op.level || (lc == op.level && fc != Fix::Prefix),
                                None => false,
                            };
                            emit(c, p, out);
                        }
                    }
                    Fix::Suffix => {
                        if let Some(c) = l {
                            let p = match level_of(c) {
                                Some((lc, _)) => lc > op.level,
                                None => false,
                            };
                            emit(c, p, out);
                        }
                        out.push(Tok::Op(op));
                    }
                    Fix::BinL | Fix::BinR => {
                        if let Some(c) = l {
                            let p = match level_of(c) {
                                Some((lc, _)) => lc > op.level || (lc == op.level && op.fix == Fix::BinR),
                                None => false,
                            };
                            emit(c, p, out);
                        }
                        out.push(Tok::Op(op));
                        if let Some(c) = r {
                            let p = match level_of(c) {
                                Some((lc, _)) => lc > op.level || (lc == op.level && op.fix == Fix::BinL),
                                None => false,
                            };
                            emit(c, p, out);
                        }
                    }
                }
            }
        },
    }
}

fn side_tokens(s: &Sx, out: &mut Vec<Tok>) {
    if let Sx::Node(_, _, body) = s {
        out.push(Tok::Open('['));
        if let Some(b) = body {
            to_tokens(b, out);
        }
        out.push(Tok::Close(']'));
    }
}

fn leak(d: &str) -> &'static str {
    match d {
        "Number" => "Number",
        "CharList" => "CharList",
        "ByteList" => "ByteList",
        "Symbol" => "Symbol",
        "Unit" => "Unit",
        "True" => "True",
        "False" => "False",
        "Value" => "Value",
        "Identifier" => "Identifier",
        _ => "Unknown",
    }
}

/// fully parenthesised token stream (fallback when the minimal printing does not round-trip)
pub fn to_tokens_full(n: &Sx, out: &mut Vec<Tok>) {
    match n {
        Sx::Node(d, l, r) if !matches!(d.as_str(), "Group" | "NestedExpression" | "SideEffect") => {
            let op = match optable::by_def(d) {
                Some(o) => o,
                None => return,
            };
            let wrap = |c: &Sx, out: &mut Vec<Tok>| match c {
                Sx::Leaf(..) | Sx::ValNode(..) => to_tokens_full(c, out),
                Sx::Node(cd, _, _) if cd == "NestedExpression" => to_tokens_full(c, out),
                _ => {
                    out.push(Tok::Open('('));
                    to_tokens_full(c, out);
                    out.push(Tok::Close(')'));
                }
            };
            if let Some(c) = l {
                wrap(c, out);
            }
            out.push(Tok::Op(op));
            if let Some(c) = r {
                wrap(c, out);
            }
        }
        Sx::Node(d, _, r) if d == "NestedExpression" => {
            out.push(Tok::Open('{'));
            if let Some(r) = r {
                to_tokens_full(r, out);
            }
            out.push(Tok::Close('}'));
        }
        other => to_tokens(other, out),
    }
}

/// tokens for an AST such that the reference parser reads back the same tree (modulo groups); None if impossible
pub fn printable(ast: &Sx) -> Option<(Vec<Tok>, Sx, bool)> {
    let mut toks = vec![];
    to_tokens(ast, &mut toks);
    if let Ok(parsed) = Pratt::parse(&toks) {
        if parsed.strip_groups() == *ast {
            return Some((toks, parsed, true));
        }
    }
    let mut toks = vec![];
    to_tokens_full(ast, &mut toks);
    match Pratt::parse(&toks) {
        Ok(parsed) if parsed.strip_groups() == *ast => Some((toks, parsed, false)),
        _ => None,
    }
}

/// like `printable`, for trees that already contain Group nodes that must be kept (C18 rewrites)
pub fn printable_keep_groups(ast: &Sx) -> Option<(Vec<Tok>, Sx, bool)> {
    let mut toks = vec![];
    to_tokens(ast, &mut toks);
    match Pratt::parse(&toks) {
        Ok(parsed) if parsed.strip_groups() == ast.strip_groups() => Some((toks, parsed, true)),
        _ => None,
    }
}
