//! Reference precedence-climbing parser over abstract token sequences, driven only by `optable`.

use super::optable::{Fix, GROUP_LEVEL, OpInfo};
use super::sx::Sx;

#[derive(Clone, Debug, PartialEq, Eq)]
pub enum Tok {
    /// (definition name, text)
    Atom(&'static str, String),
    Op(&'static OpInfo),
    Open(char),
    Close(char),
}

impl Tok {
    pub fn text(&self) -> String {
        match self {
            Tok::Atom(_, t) => t.clone(),
            Tok::Op(o) => o.text.to_string(),
            Tok::Open(c) | Tok::Close(c) => c.to_string(),
        }
    }
    /// the significant token texts this abstract token must lex to (space list / blank line lex to trivia)
    pub fn significant(&self) -> Option<String> {
        match self {
            Tok::Op(o) if o.text == " " => None,
            Tok::Op(o) if o.text == "\n\n" => Some("\n\n".to_string()),
            t => Some(t.text()),
        }
    }
}

#[derive(Clone, Copy, PartialEq, Eq, Debug)]
pub enum Layout {
    Tight,
    Spaced,
}

pub fn render(toks: &[Tok], layout: Layout) -> String {
    let mut s = String::new();
    for (i, t) in toks.iter().enumerate() {
        let is_ws_op = matches!(t, Tok::Op(o) if o.text == " " || o.text == "\n\n");
        if i > 0 && layout == Layout::Spaced {
            let prev_ws = matches!(&toks[i - 1], Tok::Op(o) if o.text == " " || o.text == "\n\n");
            if !is_ws_op && !prev_ws {
                s.push(' ');
            }
        }
        s.push_str(&t.text());
    }
    s
}

pub struct Pratt<'a> {
    toks: &'a [Tok],
    pos: usize,
}

const TOP: u32 = u32::MAX;

impl<'a> Pratt<'a> {
    pub fn parse(toks: &'a [Tok]) -> Result<Sx, String> {
        let mut p = Pratt { toks, pos: 0 };
        let e = p.expr(TOP)?;
        if p.pos != toks.len() {
            return Err(format!("trailing tokens at {}", p.pos));
        }
        Ok(e)
    }

    fn peek(&self) -> Option<&'a Tok> {
        self.toks.get(self.pos)
    }

    /// parse an expression made of operators whose level is strictly below `limit`
    fn expr(&mut self, limit: u32) -> Result<Sx, String> {
        let mut left = self.nud()?;
        loop {
            let op = match self.peek() {
                Some(Tok::Op(o)) => *o,
                _ => break,
            };
            match op.fix {
                Fix::Prefix => return Err("prefix operator in operator position".into()),
                Fix::Suffix => {
                    if op.level >= limit {
                        break;
                    }
                    self.pos += 1;
                    left = Sx::node(op.def, Some(left), None);
                }
                Fix::BinL | Fix::BinR => {
                    if op.level >= limit {
                        break;
                    }
                    self.pos += 1;
                    let right = if op.fix == Fix::BinL { self.expr(op.level)? } else { self.expr(op.level + 1)? };
                    left = Sx::node(op.def, Some(left), Some(right));
                }
            }
        }
        Ok(left)
    }

    fn nud(&mut self) -> Result<Sx, String> {
        match self.peek() {
            None => Err("operand expected at end".into()),
            Some(Tok::Atom(d, t)) => {
                self.pos += 1;
                Ok(Sx::leaf(d, t))
            }
            Some(Tok::Op(o)) if o.fix == Fix::Prefix => {
                self.pos += 1;
                let operand = self.expr(o.level)?;
                Ok(Sx::node(o.def, None, Some(operand)))
            }
            Some(Tok::Op(_)) => Err("operator where an operand is expected".into()),
            Some(Tok::Open(c)) => {
                let c = *c;
                self.pos += 1;
                let inner = self.expr(TOP)?;
                match self.peek() {
                    Some(Tok::Close(k)) if (c == '(' && *k == ')') || (c == '{' && *k == '}') => {
                        self.pos += 1;
                    }
                    _ => return Err("unclosed group".into()),
                }
                let _ = GROUP_LEVEL;
                Ok(Sx::node(if c == '(' { "Group" } else { "NestedExpression" }, None, Some(inner)))
            }
            Some(Tok::Close(_)) => Err("closer where an operand is expected".into()),
        }
    }
}

/// Build a well-formed token sequence from a list of operators by inserting atoms where an operand is needed.
/// Returns None when the fixities cannot follow each other (prefix directly after an operand, suffix/binary without one).
pub fn compose(ops: &[&'static OpInfo], atoms: &[(&'static str, &str)]) -> Option<Vec<Tok>> {
    compose_grouped(ops, atoms, usize::MAX, '(')
}

/// like `compose`, with the `group_at`-th inserted operand wrapped in a group of kind `open`
pub fn compose_grouped(ops: &[&'static OpInfo], atoms: &[(&'static str, &str)], group_at: usize, open: char) -> Option<Vec<Tok>> {
    let mut toks = vec![];
    let mut have = false;
    let mut next_atom = 0usize;
    let mut push_atom = |toks: &mut Vec<Tok>| {
        let (d, t) = atoms[next_atom % atoms.len()];
        if next_atom == group_at {
            toks.push(Tok::Open(open));
            toks.push(Tok::Atom(d, t.to_string()));
            toks.push(Tok::Close(if open == '(' { ')' } else { '}' }));
        } else {
            toks.push(Tok::Atom(d, t.to_string()));
        }
        next_atom += 1;
    };
    for (i, o) in ops.iter().enumerate() {
        match o.fix {
            Fix::Prefix => {
                if have {
                    return None;
                }
                toks.push(Tok::Op(o));
            }
            Fix::Suffix => {
                if !have {
                    // operand needed first; only legal when not directly after a prefix-less start? insert an atom
                    push_atom(&mut toks);
                }
                toks.push(Tok::Op(o));
                have = true;
            }
            Fix::BinL | Fix::BinR => {
                if !have {
                    push_atom(&mut toks);
                }
                toks.push(Tok::Op(o));
                have = false;
            }
        }
        let _ = i;
    }
    if !have {
        push_atom(&mut toks);
    }
    Some(toks)
}
