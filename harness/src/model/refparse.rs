//! Reference precedence-climbing parser over abstract token sequences, driven only by `optable`.

use super::optable::{Fix, GROUP_LEVEL, OpInfo};
use super::sx::Sx;

#[derive(Clone, Debug, PartialEq, Eq)]
pub enum Tok {
    /// (definition name, text)
    Atom(&'static str, String),
    Op(&'static OpInfo),
    Open(char),
    Close(char),
}

impl Tok {
    pub fn text(&self) -> String {
        match self {
            Tok::Atom(_, t) => t.clone(),
            Tok::Op(o) => o.text.to_string(),
            Tok::Open(c) | Tok::Close(c) => c.to_string(),
        }
    }
    /// the significant token texts this abstract token must lex to (space list / blank line lex to trivia)
    pub fn significant(&self) -> Option<String> {
        match self {
            Tok::Op(o) if o.text == " " => None,
            Tok::Op(o) if o.text == "\n\n" => Some("\n\n".to_string()),
            t => Some(t.text()),
        }
    }
}

#[derive(Clone, Copy, PartialEq, Eq, Debug)]
pub enum Layout {
    Tight,
    Spaced,
}

pub fn render(toks: &[Tok], layout: Layout) -> String {
    let mut s = String::new();
    for (i, t) in toks.iter().enumerate() {
        let is_ws_op = matches!(t, Tok::Op(o) if o.text == " " || o.text == "\n\n");
        if i > 0 && layout == Layout::Spaced {
            let prev_ws = matches!(&toks[i - 1], Tok::Op(o) if o.text == " " || o.text == "\n\n");
            if !is_ws_op && !prev_ws {
                s.push(' ');
            }
        }
        s.push_str(&t.text());
    }
    s
}

pub struct Pratt<'a> {
    toks: &'a [Tok],
    pos: usize,
}

const TOP: u32 = u32::MAX;

impl<'a> Pratt<'a> {
    pub fn parse(toks: &'a [Tok]) -> Result<Sx, String> {
        let mut p = Pratt { toks, pos: 0 };
        let e = p.expr(TOP)?;
        if p.pos != toks.len() {
            return Err(format!("trailing tokens at {}", p.pos));
        }
        Ok(e)
    }

    fn peek(&self) -> Option<&'a Tok> {
        self.toks.get(self.pos)
    }

    /// parse an expression made of operators whose level is strictly below `limit`
    fn expr(&mut self, limit: u32) -> Result<Sx, String> {
        // the comma is an optional binary operator: `(,)`, `(1,)`, `(,1)`
        let mut left: Option<Sx> = match self.peek() {
            Some(Tok::Op(o)) if o.def == "CommaList" => None,
            _ => Some(self.nud()?),
        };
        loop {
            let op = match self.peek() {
                Some(Tok::Op(o)) => *o,
                _ => break,
            };
            match op.fix {
                Fix::Prefix => return Err("prefix operator in operator position".into()),
                Fix::Suffix => {
                    if op.level >= limit {
                        break;
                    }
                    self.pos += 1;
                    left = Some(Sx::node(op.def, Some(left.ok_or("suffix without operand")?), None));
                }
                Fix::BinL | Fix::BinR => {
                    if op.level >= limit {
                        break;
                    }
                    self.pos += 1;
                    if op.def == "CommaList" {
                        let right_missing = match self.peek() {
                            None | Some(Tok::Close(_)) => true,
                            Some(Tok::Op(o)) => matches!(o.fix, Fix::BinL | Fix::BinR | Fix::Suffix),
                            _ => false,
                        };
                        let right = if right_missing { None } else { Some(self.expr(op.level)?) };
                        left = Some(Sx::node(op.def, left, right));
                        continue;
                    }
                    let l = left.ok_or("binary operator without left operand")?;
                    let right = if op.fix == Fix::BinL { self.expr(op.level)? } else { self.expr(op.level + 1)? };
                    left = Some(Sx::node(op.def, Some(l), Some(right)));
                }
            }
        }
        left.ok_or_else(|| "operand expected".to_string())
    }

    fn side_effect(&mut self) -> Result<Sx, String> {
        self.pos += 1; // [
        let body = self.expr(TOP)?;
        match self.peek() {
            Some(Tok::Close(']')) => {
                self.pos += 1;
                Ok(Sx::node("SideEffect", None, Some(body)))
            }
            _ => Err("unclosed side effect".into()),
        }
    }

    fn nud(&mut self) -> Result<Sx, String> {
        match self.peek() {
            None => Err("operand expected at end".into()),
            Some(Tok::Atom(d, t)) => {
                self.pos += 1;
                // a side-effect block directly after a value is its right child
                if let Some(Tok::Open('[')) = self.peek() {
                    let se = self.side_effect()?;
                    return Ok(Sx::ValNode(d.to_string(), t.clone(), None, Some(Box::new(se))));
                }
                Ok(Sx::leaf(d, t))
            }
            Some(Tok::Open('[')) => {
                // a side-effect block before a value is its left child — where the language defines the placement: after a
                // closing bracket or a suffix operator (with or without a list space in between) the block is neither next to
                // the value before it nor clearly the next value's (recorded side-effect placement findings): not read
                let mut k = self.pos;
                while k > 0 && matches!(&self.toks[k - 1], Tok::Op(o) if o.text == " ") {
                    k -= 1;
                }
                if k > 0 && matches!(&self.toks[k - 1], Tok::Close(_)) {
                    return Err("side-effect block after a closing bracket".into());
                }
                if k > 0 && k < self.pos && matches!(&self.toks[k - 1], Tok::Atom(..)) {
                    // `a [x] b`: the block belongs to the value before it, across the list space
                    return Err("side-effect block after a value and a list space belongs to that value".into());
                }
                if k > 0 && matches!(&self.toks[k - 1], Tok::Op(o) if o.fix == Fix::Suffix) {
                    return Err("side-effect block after a suffix operator".into());
                }
                let se = self.side_effect()?;
                match self.peek() {
                    Some(Tok::Atom(d, t)) => {
                        self.pos += 1;
                        let right = if let Some(Tok::Open('[')) = self.peek() { Some(Box::new(self.side_effect()?)) } else { None };
                        Ok(Sx::ValNode(d.to_string(), t.clone(), Some(Box::new(se)), right))
                    }
                    _ => Err("side effect not followed by a value".into()),
                }
            }
            Some(Tok::Op(o)) if o.fix == Fix::Prefix => {
                self.pos += 1;
                let operand = self.expr(o.level)?;
                Ok(Sx::node(o.def, None, Some(operand)))
            }
            Some(Tok::Op(_)) => Err("operator where an operand is expected".into()),
            Some(Tok::Open(c)) => {
                let c = *c;
                self.pos += 1;
                // an empty bracket pair is an operand all the same
                if let Some(Tok::Close(k)) = self.peek() {
                    if (c == '(' && *k == ')') || (c == '{' && *k == '}') {
                        self.pos += 1;
                        return Ok(Sx::node(if c == '(' { "Group" } else { "NestedExpression" }, None, None));
                    }
                }
                let inner = self.expr(TOP)?;
                match self.peek() {
                    Some(Tok::Close(k)) if (c == '(' && *k == ')') || (c == '{' && *k == '}') => {
                        self.pos += 1;
                    }
                    _ => return Err("unclosed group".into()),
                }
                let _ = GROUP_LEVEL;
                Ok(Sx::node(if c == '(' { "Group" } else { "NestedExpression" }, None, Some(inner)))
            }
            Some(Tok::Close(_)) => Err("closer where an operand is expected".into()),
        }
    }
}

/// Build a well-formed token sequence from a list of operators by inserting atoms where an operand is needed.
/// Returns None when the fixities cannot follow each other (prefix directly after an operand, suffix/binary without one).
pub fn compose(ops: &[&'static OpInfo], atoms: &[(&'static str, &str)]) -> Option<Vec<Tok>> {
    compose_grouped(ops, atoms, usize::MAX, '(', false)
}

/// like `compose`, with the `group_at`-th inserted operand wrapped in a group of kind `open`
pub fn compose_grouped(ops: &[&'static OpInfo], atoms: &[(&'static str, &str)], group_at: usize, open: char, empty: bool) -> Option<Vec<Tok>> {
    let mut toks = vec![];
    let mut have = false;
    let mut next_atom = 0usize;
    let mut push_atom = |toks: &mut Vec<Tok>| {
        let (d, t) = atoms[next_atom % atoms.len()];
        if next_atom == group_at {
            toks.push(Tok::Open(open));
            if !empty {
                toks.push(Tok::Atom(d, t.to_string()));
            }
            toks.push(Tok::Close(if open == '(' { ')' } else { '}' }));
        } else {
            toks.push(Tok::Atom(d, t.to_string()));
        }
        next_atom += 1;
    };
    for (i, o) in ops.iter().enumerate() {
        match o.fix {
            Fix::Prefix => {
                if have {
                    return None;
                }
                toks.push(Tok::Op(o));
            }
            Fix::Suffix => {
                if !have {
                    // operand needed first; only legal when not directly after a prefix-less start? insert an atom
                    push_atom(&mut toks);
                }
                toks.push(Tok::Op(o));
                have = true;
            }
            Fix::BinL | Fix::BinR => {
                if !have {
                    push_atom(&mut toks);
                }
                toks.push(Tok::Op(o));
                have = false;
            }
        }
        let _ = i;
    }
    if !have {
        push_atom(&mut toks);
    }
    Some(toks)
}

/// Convert source text to abstract tokens using the real lexer's token boundaries and the reference reading of layout:
/// white space between something that can end an operand and something that can start one is the space-list operator;
/// inside `( )` a blank line or `;` counts as white space; annotations are dropped.
pub fn tokens_from_text(text: &str) -> Result<Vec<Tok>, String> {
    use crate::model::optable;
    use garnish_lang_compiler::lex::{TokenType as T, lex};
    let lexed = lex(text).map_err(|e| e.get_message().clone())?;
    #[derive(Clone, Copy, PartialEq)]
    enum K {
        EndsOperand,
        StartsOperand,
        Both,
        Neither,
    }
    let mut out: Vec<Tok> = vec![];
    let mut kinds: Vec<K> = vec![];
    let mut pending_ws = false;
    let mut brackets: Vec<char> = vec![];
    let push = |out: &mut Vec<Tok>, kinds: &mut Vec<K>, pending_ws: &mut bool, tok: Tok, k: K| {
        if *pending_ws {
            if let Some(prev) = kinds.last() {
                if matches!(prev, K::EndsOperand | K::Both) && matches!(k, K::StartsOperand | K::Both) {
                    out.push(Tok::Op(optable::find(" ").unwrap()));
                    kinds.push(K::Neither);
                }
            }
        }
        *pending_ws = false;
        out.push(tok);
        kinds.push(k);
    };
    for t in &lexed {
        let text = t.get_text().as_str();
        match t.get_token_type() {
            T::Whitespace => pending_ws = true,
            T::Annotation | T::LineAnnotation => {}
            T::Subexpression | T::ExpressionSeparator => {
                if brackets.last() == Some(&'(') {
                    pending_ws = true;
                } else {
                    let op = if t.get_token_type() == T::Subexpression { "\n\n" } else { ";" };
                    // redundant separators (leading, doubled, after an opener) are dropped
                    let prev_ok = matches!(kinds.last(), Some(K::EndsOperand | K::Both));
                    if prev_ok {
                        pending_ws = false;
                        out.push(Tok::Op(optable::find(op).unwrap()));
                        kinds.push(K::Neither);
                    }
                }
            }
            T::StartGroup | T::StartExpression | T::StartSideEffect => {
                let c = text.chars().next().unwrap();
                brackets.push(c);
                let k = if c == '[' { K::Neither } else { K::StartsOperand };
                push(&mut out, &mut kinds, &mut pending_ws, Tok::Open(c), k);
            }
            T::EndGroup | T::EndExpression | T::EndSideEffect => {
                brackets.pop();
                // a trailing separator before a closer is redundant
                if let Some(Tok::Op(o)) = out.last() {
                    if o.text == "\n\n" || o.text == ";" {
                        out.pop();
                        kinds.pop();
                    }
                }
                pending_ws = false;
                let c = text.chars().next().unwrap();
                out.push(Tok::Close(c));
                kinds.push(if c == ']' { K::Neither } else { K::EndsOperand });
            }
            T::Number => push(&mut out, &mut kinds, &mut pending_ws, Tok::Atom("Number", text.to_string()), K::Both),
            T::CharList => push(&mut out, &mut kinds, &mut pending_ws, Tok::Atom("CharList", text.to_string()), K::Both),
            T::ByteList => push(&mut out, &mut kinds, &mut pending_ws, Tok::Atom("ByteList", text.to_string()), K::Both),
            T::Symbol => push(&mut out, &mut kinds, &mut pending_ws, Tok::Atom("Symbol", text.to_string()), K::Both),
            T::Identifier => push(&mut out, &mut kinds, &mut pending_ws, Tok::Atom("Identifier", text.to_string()), K::Both),
            T::UnitLiteral => push(&mut out, &mut kinds, &mut pending_ws, Tok::Atom("Unit", text.to_string()), K::Both),
            T::True => push(&mut out, &mut kinds, &mut pending_ws, Tok::Atom("True", text.to_string()), K::Both),
            T::False => push(&mut out, &mut kinds, &mut pending_ws, Tok::Atom("False", text.to_string()), K::Both),
            T::Value => push(&mut out, &mut kinds, &mut pending_ws, Tok::Atom("Value", text.to_string()), K::Both),
            T::PrefixIdentifier | T::SuffixIdentifier | T::InfixIdentifier | T::ExpressionTerminator | T::Unknown => return Err(format!("token {:?} outside the reference grammar", t.get_token_type())),
            _ => {
                let op = optable::find(text).ok_or_else(|| format!("operator {:?} not in the table", text))?;
                let k = match op.fix {
                    optable::Fix::Prefix => K::StartsOperand,
                    optable::Fix::Suffix => K::EndsOperand,
                    _ => K::Neither,
                };
                // a suffix operator does not take the list operator before it, a prefix operator may
                if op.fix == optable::Fix::Suffix {
                    pending_ws = false;
                }
                push(&mut out, &mut kinds, &mut pending_ws, Tok::Op(op), k);
            }
        }
    }
    // trailing separators are redundant
    while let Some(Tok::Op(o)) = out.last() {
        if o.text == "\n\n" || o.text == ";" {
            out.pop();
        } else {
            break;
        }
    }
    Ok(out)
}
