//! S-expressions for parse trees: from the repository's ParseResult and from the reference parser.

use garnish_lang_compiler::parse::{Definition, ParseNode};
use std::fmt;

#[derive(Clone, Debug)]
pub enum Sx {
    Leaf(String, String),
    /// (definition, left, right); value nodes that carry side-effect children keep their token text in `ValNode`
    Node(String, Option<Box<Sx>>, Option<Box<Sx>>),
    /// a value node (definition, text) with side-effect children
    ValNode(String, String, Option<Box<Sx>>, Option<Box<Sx>>),
    Broken(String),
}

impl PartialEq for Sx {
    fn eq(&self, other: &Sx) -> bool {
        match (self, other) {
            (Sx::Leaf(a, b), Sx::Leaf(c, d)) => a == c && b == d,
            (Sx::Node(a, l1, r1), Sx::Node(b, l2, r2)) => a == b && l1 == l2 && r1 == r2,
            (Sx::ValNode(a, t1, l1, r1), Sx::ValNode(b, t2, l2, r2)) => a == b && t1 == t2 && l1 == l2 && r1 == r2,
            (Sx::Broken(a), Sx::Broken(b)) => a == b,
            _ => false,
        }
    }
}
impl Eq for Sx {}

impl fmt::Display for Sx {
    fn fmt(&self, f: &mut fmt::Formatter<'_>) -> fmt::Result {
        match self {
            Sx::Leaf(d, t) => {
                if matches!(d.as_str(), "Number" | "Identifier" | "Symbol") {
                    write!(f, "{}", t)
                } else {
                    write!(f, "{}:{:?}", d, t)
                }
            }
            Sx::Broken(w) => write!(f, "<BROKEN {}>", w),
            Sx::ValNode(d, t, l, r) => {
                write!(f, "({}:{:?}", d, t)?;
                match l {
                    Some(l) => write!(f, " {}", l)?,
                    None => write!(f, " _")?,
                }
                match r {
                    Some(r) => write!(f, " {}", r)?,
                    None => write!(f, " _")?,
                }
                write!(f, ")")
            }
            Sx::Node(d, l, r) => {
                write!(f, "({}", d)?;
                match l {
                    Some(l) => write!(f, " {}", l)?,
                    None => write!(f, " _")?,
                }
                match r {
                    Some(r) => write!(f, " {}", r)?,
                    None => write!(f, " _")?,
                }
                write!(f, ")")
            }
        }
    }
}

impl Sx {
    pub fn leaf(def: &str, text: &str) -> Sx {
        Sx::Leaf(def.to_string(), text.to_string())
    }
    pub fn node(def: &str, l: Option<Sx>, r: Option<Sx>) -> Sx {
        Sx::Node(def.to_string(), l.map(Box::new), r.map(Box::new))
    }
    pub fn is_broken(&self) -> bool {
        match self {
            Sx::Broken(_) => true,
            Sx::Leaf(..) => false,
            Sx::Node(_, l, r) | Sx::ValNode(_, _, l, r) => l.as_ref().map(|x| x.is_broken()).unwrap_or(false) || r.as_ref().map(|x| x.is_broken()).unwrap_or(false),
        }
    }
    /// remove Group nodes (keeping their content); an empty group stays
    pub fn strip_groups(&self) -> Sx {
        match self {
            Sx::Node(d, None, Some(r)) if d == "Group" => r.strip_groups(),
            Sx::Node(d, l, r) => Sx::Node(d.clone(), l.as_ref().map(|x| Box::new(x.strip_groups())), r.as_ref().map(|x| Box::new(x.strip_groups()))),
            Sx::ValNode(d, t, l, r) => Sx::ValNode(d.clone(), t.clone(), l.as_ref().map(|x| Box::new(x.strip_groups())), r.as_ref().map(|x| Box::new(x.strip_groups()))),
            other => other.clone(),
        }
    }
    pub fn contains_def(&self, def: &str) -> bool {
        match self {
            Sx::Leaf(d, _) => d == def,
            Sx::Broken(_) => false,
            Sx::Node(d, l, r) | Sx::ValNode(d, _, l, r) => d == def || l.as_ref().map(|x| x.contains_def(def)).unwrap_or(false) || r.as_ref().map(|x| x.contains_def(def)).unwrap_or(false),
        }
    }
    pub fn size(&self) -> usize {
        match self {
            Sx::Node(_, l, r) | Sx::ValNode(_, _, l, r) => 1 + l.as_ref().map(|x| x.size()).unwrap_or(0) + r.as_ref().map(|x| x.size()).unwrap_or(0),
            _ => 1,
        }
    }
}

pub fn def_name(d: Definition) -> String {
    match d {
        Definition::Property => "Identifier".to_string(),
        d => format!("{:?}", d),
    }
}

/// Convert the repository's index-linked tree; cycles and dangling indexes become Broken nodes.
pub fn from_parse(root: usize, nodes: &[ParseNode]) -> Sx {
    if nodes.is_empty() {
        return Sx::leaf("Empty", "");
    }
    let mut on_path = vec![false; nodes.len()];
    let mut budget = nodes.len() * 4 + 16;
    conv(root, nodes, &mut on_path, &mut budget)
}

fn conv(i: usize, nodes: &[ParseNode], on_path: &mut Vec<bool>, budget: &mut usize) -> Sx {
    if *budget == 0 {
        return Sx::Broken("too-large".into());
    }
    *budget -= 1;
    let n = match nodes.get(i) {
        Some(n) => n,
        None => return Sx::Broken(format!("dangling-index")),
    };
    if on_path[i] {
        return Sx::Broken("cycle".into());
    }
    on_path[i] = true;
    let l = n.get_left().map(|l| conv(l, nodes, on_path, budget));
    let r = n.get_right().map(|r| conv(r, nodes, on_path, budget));
    on_path[i] = false;
    let d = n.get_definition();
    if l.is_none() && r.is_none() && d.is_value_like() {
        Sx::Leaf(def_name(d), n.get_lex_token().get_text().clone())
    } else if d.is_value_like() {
        Sx::ValNode(def_name(d), n.get_lex_token().get_text().clone(), l.map(Box::new), r.map(Box::new))
    } else {
        Sx::Node(def_name(d), l.map(Box::new), r.map(Box::new))
    }
}
