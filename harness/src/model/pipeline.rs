//! Guarded pipeline stages and the shared input corpus (token-class sequences, soups) for C03–C07.

use crate::engine::core::{Panicked, guard};
use crate::engine::tape::Tape;
use crate::model::data::*;
use garnish_lang_compiler::build::{BuildData, build};
use garnish_lang_compiler::lex::{LexerToken, TokenType, lex};
use garnish_lang_compiler::parse::{ParseNode, ParseResult, parse};
use garnish_lang_runtime::{SimpleRuntimeState, execute_current_instruction};

pub fn lex_g(text: &str) -> Result<Result<Vec<LexerToken>, String>, Panicked> {
    guard("lex", || lex(text).map_err(|e| e.get_message().clone()))
}

pub fn parse_g(tokens: &Vec<LexerToken>) -> Result<Result<ParseResult, String>, Panicked> {
    guard("parse", || parse(tokens).map_err(|e| e.get_message().clone()))
}

pub fn build_g<D: GD>(parsed: &ParseResult, data: &mut D) -> Result<Result<BuildData<D>, String>, Panicked> {
    guard("build", || build(parsed.get_root(), parsed.get_nodes().clone(), data).map_err(|e| String::from(e)))
}

/// Is there a cycle among the nodes reachable from the root through left/right links (the links `build` follows)?
pub fn tree_has_cycle(root: usize, nodes: &[ParseNode]) -> bool {
    if nodes.is_empty() {
        return false;
    }
    // iterative DFS with colours
    let mut colour = vec![0u8; nodes.len()];
    let mut stack: Vec<(usize, u8)> = vec![(root, 0)];
    while let Some((i, state)) = stack.pop() {
        if i >= nodes.len() {
            continue;
        }
        if state == 0 {
            if colour[i] == 1 {
                return true;
            }
            if colour[i] == 2 {
                continue;
            }
            colour[i] = 1;
            stack.push((i, 1));
            if let Some(r) = nodes[i].get_right() {
                if r < nodes.len() && colour[r] == 1 {
                    return true;
                }
                stack.push((r, 0));
            }
            if let Some(l) = nodes[i].get_left() {
                if l < nodes.len() && colour[l] == 1 {
                    return true;
                }
                stack.push((l, 0));
            }
        } else {
            colour[i] = 2;
        }
    }
    false
}

/// definitions of the nodes that lie on some cycle reachable from the root (sorted, unique) — used to key findings
pub fn cycle_members(root: usize, nodes: &[ParseNode]) -> Vec<String> {
    // a node is on a cycle iff it can reach itself
    let mut out: Vec<String> = vec![];
    let reach_from = |start: usize| -> bool {
        let mut seen = vec![false; nodes.len()];
        let mut stack = vec![];
        for c in [nodes[start].get_left(), nodes[start].get_right()].into_iter().flatten() {
            stack.push(c);
        }
        while let Some(i) = stack.pop() {
            if i >= nodes.len() || seen[i] {
                continue;
            }
            if i == start {
                return true;
            }
            seen[i] = true;
            for c in [nodes[i].get_left(), nodes[i].get_right()].into_iter().flatten() {
                stack.push(c);
            }
        }
        false
    };
    let _ = root;
    for i in 0..nodes.len().min(64) {
        if reach_from(i) {
            let d = format!("{:?}", nodes[i].get_definition());
            if !out.contains(&d) {
                out.push(d);
            }
        }
    }
    out.sort();
    out
}

#[derive(Debug)]
pub enum RunEnd {
    Finished(usize),
    Error(String),
    StepLimit,
    Panic(Panicked),
}

/// Start a built program the way the repository's script runner does and step it.
/// cells a running program may add to the data table before the run is cut as non-terminating
pub const RUN_DATA_GROWTH_CAP: usize = 12_000;

pub fn run_program<D: GD>(data: &mut D, entry: usize, input: Option<usize>, max_steps: usize) -> RunEnd {
    let start = match data.get_from_jump_table(entry) {
        Some(s) => s,
        None => return RunEnd::Error("no jump entry".into()),
    };
    if let Err(e) = data.set_instruction_cursor(start) {
        return RunEnd::Error(e.to_string());
    }
    let input = match input {
        Some(i) => i,
        None => match data.add_unit() {
            Ok(u) => u,
            Err(e) => return RunEnd::Error(e.to_string()),
        },
    };
    if let Err(e) = data.push_value_stack(input) {
        return RunEnd::Error(e.to_string());
    }
    let mut steps = 0usize;
    // a loop that builds an ever larger value is cut like any other non-terminating loop: the stores' per-step cost
    // grows with their size (BasicGarnishData copies its heap when a block grows), so a step bound alone is no work bound
    let data_cap = data.get_data_len() + RUN_DATA_GROWTH_CAP;
    loop {
        if steps % 16 == 0 && data.get_data_len() > data_cap {
            return RunEnd::StepLimit;
        }
        let r = guard("run", || execute_current_instruction(data));
        match r {
            Err(p) => return RunEnd::Panic(p),
            Ok(Err(e)) => return RunEnd::Error(e.to_string()),
            Ok(Ok(info)) => {
                steps += 1;
                if info.get_state() == SimpleRuntimeState::End {
                    return RunEnd::Finished(steps);
                }
            }
        }
        if steps >= max_steps {
            return RunEnd::StepLimit;
        }
    }
}

// ---------------------------------------------------------------------------------------------
// corpus: token classes

/// One representative per parser token class (SecondaryDefinition x special handling).
pub const TOKEN_CLASSES: &[&str] = &[
    "5", "a", "$", "()", "+", "=", ",", "`f`", "f`", "`f", "--", "~~", ".", "?>", "|>", "&&", "^~", "(", ")", "{", "}", "[", "]", "\n\n", ";", ";;", "@a", "@@c\n", "\"s\"", ":s",
];

pub const SEPARATORS: &[&str] = &["", " ", " @x "];

pub fn class_sequence_count(max_len: u32) -> u64 {
    let k = TOKEN_CLASSES.len() as u64;
    let mut total = 0u64;
    let mut block = 1u64;
    for _ in 0..=max_len {
        total += block;
        block *= k;
    }
    total * SEPARATORS.len() as u64
}

/// index -> source text; size order (shorter sequences first), separator fastest
pub fn class_sequence(index: u64, max_len: u32) -> String {
    let sep = SEPARATORS[(index % SEPARATORS.len() as u64) as usize];
    let mut idx = index / SEPARATORS.len() as u64;
    let k = TOKEN_CLASSES.len() as u64;
    let mut len = 0u32;
    let mut block = 1u64;
    while len <= max_len {
        if idx < block {
            break;
        }
        idx -= block;
        block *= k;
        len += 1;
    }
    let mut parts = vec![""; len as usize];
    for i in (0..len as usize).rev() {
        parts[i] = TOKEN_CLASSES[(idx % k) as usize];
        idx /= k;
    }
    parts.join(sep)
}

pub const SOUP_TOKENS: &[&str] = &[
    "5", "10", "3.5", "a", "b", "x", "$", "$?", "$!", "()", "+", "-", "*", "/", "//", "%", "**", "++", "--", "!", "&", "|", "^", "<<", ">>", "&&", "||", "^^", "!!", "??", "=", ",", ".", "_.", "._", ".|", "~~", "<~",
    "~>", "~", "^~", "#", "~#", "#=", "==", "!=", "<", "<=", ">", ">=", "<>", "..", ">..", "..<", ">..<", "?>", "!>", "|>", "(", ")", "{", "}", "[", "]", ";", ";;", "\n\n", "\n", " ", "  ", "\t", "`f`", "f`", "`f", "@a",
    "@@ c\n", "\"s\"", "\"\"", "''", "'''1 2'''", "'''1 é'''", "'é'", "\"\"\"é\"\"\"", "020_1z", "'b'", ":s", ":", "1e999", "2147483647", "0", "\"é\"",
];

/// random token soup up to `max` tokens
pub fn token_soup(t: &mut Tape, max: usize) -> String {
    let n = 1 + t.choose(max);
    let mut s = String::new();
    for _ in 0..n {
        let tok = SOUP_TOKENS[t.choose(SOUP_TOKENS.len())];
        s.push_str(tok);
        match t.choose(4) {
            0 => {}
            _ => s.push(' '),
        }
        if t.exhausted() {
            break;
        }
    }
    s
}

/// raw character soup over an alphabet with control characters, quotes, backslash, CR, multi-byte characters
pub fn char_soup(t: &mut Tape, max: usize) -> String {
    const ALPHA: &[char] = &[
        '5', 'a', '_', ':', '.', '+', '-', '~', '<', '>', '=', '!', '?', '|', '$', '(', ')', '{', '}', '[', ']', ',', ';', '#', '@', '&', '^', '*', '/', '%', '`', '"', '\'', '\\', ' ', '\t', '\n', '\r', 'é', '漢',
        '😀', '\0', '\x01', '\x7f', '\u{feff}', '٣',
    ];
    let n = 1 + t.choose(max);
    let mut s = String::new();
    for _ in 0..n {
        s.push(ALPHA[t.choose(ALPHA.len())]);
        if t.exhausted() {
            break;
        }
    }
    s
}

/// every string of length 0..=max_len over `alphabet` (size order)
pub fn alphabet_string(mut index: u64, alphabet: &[&str], max_len: u32) -> String {
    let k = alphabet.len() as u64;
    let mut len = 0u32;
    let mut block = 1u64;
    while len <= max_len {
        if index < block {
            break;
        }
        index -= block;
        block *= k;
        len += 1;
    }
    let mut parts = vec![""; len as usize];
    for i in (0..len as usize).rev() {
        parts[i] = alphabet[(index % k) as usize];
        index /= k;
    }
    parts.concat()
}

pub fn alphabet_count(k: u64, max_len: u32) -> u64 {
    let mut total = 0u64;
    let mut block = 1u64;
    for _ in 0..=max_len {
        total += block;
        block *= k;
    }
    total
}

/// literal-shaped strings: quotes of both kinds, digits, blanks, a multi-byte character, backslash, a letter, underscore
pub const LITERAL_ALPHABET: &[&str] = &["'", "\"", "1", " ", "é", "\\", "a", "_", "0"];

/// side-effect placements around values and an operator
pub const SIDE_EFFECT_ALPHABET: &[&str] = &["5", "[", "]", "+", " "];

/// statement blocks: values, both separators and every bracket kind (three alphabets of 7 so that length 7 stays cheap)
pub const BLOCK_ALPHABET_A: &[&str] = &["5", ";", "\n\n", "{", "}", "(", ")"];
pub const BLOCK_ALPHABET_B: &[&str] = &["5", ";", "\n\n", "[", "]", "+", " "];

/// lists written over several statements' worth of layout: comma, both separators, a plain group and a prefix operator
pub const BLOCK_ALPHABET_C: &[&str] = &["5", ",", ";", "\n\n", "(", ")", "--"];

pub fn block_string_count(max_len: u32) -> u64 {
    alphabet_count(BLOCK_ALPHABET_A.len() as u64, max_len) + alphabet_count(BLOCK_ALPHABET_B.len() as u64, max_len) + alphabet_count(BLOCK_ALPHABET_C.len() as u64, max_len)
}

pub fn block_string(index: u64, max_len: u32) -> String {
    let a = alphabet_count(BLOCK_ALPHABET_A.len() as u64, max_len);
    let b = alphabet_count(BLOCK_ALPHABET_B.len() as u64, max_len);
    if index < a {
        alphabet_string(index, BLOCK_ALPHABET_A, max_len)
    } else if index < a + b {
        alphabet_string(index - a, BLOCK_ALPHABET_B, max_len)
    } else {
        alphabet_string(index - a - b, BLOCK_ALPHABET_C, max_len)
    }
}

/// "the same thing several times": homogeneous operator chains, conditional chains of 1..6 arms (with and without a
/// default, under every truth pattern that selects a different arm, at top level and inside a group, a nested
/// expression and a list), nesting of every bracket kind and of prefix / suffix operators to depth 6, statement
/// sequences of 2..7 statements. Bounded-exhaustive over (construct, repetition count), not over all programs.
pub fn repetition_programs() -> Vec<String> {
    let mut out: Vec<String> = vec![];
    for op in crate::model::valuepool::BINARY_OPS {
        for k in 3..=7usize {
            // operands 2, 3, 4 ...: with a leading 1 both groupings of `**` (and of `*`) give the same value
            let operands: Vec<String> = (2..=k + 1).map(|i| i.to_string()).collect();
            out.push(if *op == " " { operands.join(" ") } else { operands.join(&format!(" {} ", op)) });
        }
    }
    for n in 1..=6usize {
        for kinds in 0..3 {
            for default in [false, true] {
                for pattern in 0..4 {
                    let mut parts = vec![];
                    for i in 0..n {
                        let truth = match pattern {
                            0 => false,
                            1 => true,
                            2 => i + 1 == n,
                            _ => i == 0,
                        };
                        let op = match kinds {
                            0 => "?>",
                            1 => "!>",
                            _ => if i % 2 == 0 { "?>" } else { "!>" },
                        };
                        // the arm is taken when the condition's truth matches the operator
                        let cond = if (op == "?>") == truth { "$?" } else { "$!" };
                        let cond = if op == "!>" { if truth { "$!" } else { "$?" } } else { cond };
                        parts.push(format!("{} {} {}", cond, op, (i + 1) * 10));
                    }
                    if default {
                        parts.push("99".to_string());
                    }
                    let chain = parts.join(" |> ");
                    out.push(chain.clone());
                    out.push(format!("( {} ) + 1", chain));
                    out.push(format!("{{ {} }} ~~", chain));
                    out.push(format!("7, ( {} ), 8", chain));
                }
            }
        }
    }
    for d in 1..=6usize {
        out.push(format!("{}5{}", "( ".repeat(d), " )".repeat(d)));
        out.push(format!("{}5{}", "{ ".repeat(d), " } ~~".repeat(d)));
        out.push(format!("{}5{}", "1 ( ".repeat(d), " )".repeat(d)));
        out.push(format!("5{}", " [ 6".repeat(d)) + &" ]".repeat(d));
        for pre in ["--", "++", "!!", "??", "!", "_."] {
            out.push(format!("{}5", format!("{} ", pre).repeat(d)));
        }
        for suf in ["~~", "._", ".|"] {
            out.push(format!("( 1 2 ){}", format!(" {}", suf).repeat(d)));
        }
        out.push(format!("{}5", "{ $ + 1 } <~ ".repeat(d)));
        out.push(format!("5{}", " ~> { $ + 1 }".repeat(d)));
    }
    for k in 2..=7usize {
        let st: Vec<String> = (1..=k).map(|i| format!("$ + {}", i)).collect();
        out.push(st.join(" ; "));
        out.push(st.join("\n\n"));
        out.push(st.iter().enumerate().map(|(i, s)| if i == 0 { s.clone() } else if i % 2 == 0 { format!(" ; {}", s) } else { format!("\n\n{}", s) }).collect::<String>());
        out.push(format!("{{ {} }} <~ 1", st.join(" ; ")));
    }
    out
}

/// the repetition corpus and the size sweep together (one phase in C01, C03-C07)
pub fn repetition_corpus() -> &'static [String] {
    static CORPUS: std::sync::OnceLock<Vec<String>> = std::sync::OnceLock::new();
    CORPUS.get_or_init(|| {
        let mut v = repetition_programs();
        v.extend(size_sweep_programs());
        v
    })
}

/// sizes around the thresholds code likes to special-case: small counts, powers of two and their neighbours, round numbers
pub const SIZE_SWEEP: &[usize] = &[8, 9, 10, 11, 12, 13, 15, 16, 17, 20, 31, 32, 33, 50, 63, 64, 65, 100, 127, 128, 129, 200, 255, 256, 257, 300, 1000];

/// "the same construct at every size": lists of n items (space and comma), lists of n associations with a look-up in
/// the middle and at both ends, sums of n terms, n statements, texts / byte lists / symbol names of n characters,
/// conditional chains of n arms, n nested groups, a loop of n iterations. Used beside `repetition_programs`.
pub fn size_sweep_programs() -> Vec<String> {
    let mut out = vec![];
    for &n in SIZE_SWEEP {
        let nums: Vec<String> = (1..=n).map(|i| (i % 97).to_string()).collect();
        out.push(nums.join(" "));
        out.push(nums.join(", "));
        out.push(format!("( {} ) .|", nums.join(" ")));
        out.push(format!("( {} ) . {}", nums.join(", "), n - 1));
        out.push(format!("( {} ) . {}", nums.join(" "), n));
        let assoc: Vec<String> = (1..=n).map(|i| format!(":k{} = {}", i, i)).collect();
        for key in [1, n / 2, n] {
            out.push(format!("( {} ) . k{}", assoc.join(", "), key));
        }
        out.push(format!("( {} ) ~> {{ k{} + k1 }}", assoc.join(" "), n));
        out.push(format!("\"{}\"", "a".repeat(n)));
        out.push(format!("\"{}\" .|", "é".repeat(n)));
        out.push(format!("'{}'", "b".repeat(n)));
        out.push(format!(":{} == :{}", "s".repeat(n), "s".repeat(n)));
        out.push(format!("\"{}\" == \"{}\"", "a".repeat(n), "a".repeat(n)));
        out.push(format!("( {} ) == ( {} )", nums.join(" "), nums.join(" ")));
        if n <= 300 {
            out.push(vec!["1"; n].join(" + "));
            out.push((1..=n).map(|i| format!("$ + {}", i % 7)).collect::<Vec<_>>().join(" ; "));
            out.push((1..=n).map(|i| format!("{}", i % 7)).collect::<Vec<_>>().join("\n\n"));
            // a chain of n arms, the last one taken
            let arms: Vec<String> = (1..=n).map(|i| format!("$ == {} ?> {}", i, i + 1000)).collect();
            out.push(format!("{{ {} |> 7 }} <~ {}", arms.join(" |> "), n));
            out.push(format!("{{ {} |> 7 }} <~ {}", arms.join(" |> "), n + 1));
            // a counting loop of n iterations
            out.push(format!("{{ $ == {} ?> $ |> ^~ $ + 1 }} <~ 0", n));
        }
        if n <= 64 {
            out.push(format!("{}5{}", "( ".repeat(n), " )".repeat(n)));
            out.push(format!("{}5{}", "{ ".repeat(n), " } ~~".repeat(n)));
        }
    }
    out
}

pub fn simple_for_build() -> garnish_lang_simple_data::SimpleGarnishData {
    new_simple()
}

/// coarse token class used to key findings
pub fn token_class(t: TokenType) -> &'static str {
    match t {
        TokenType::Whitespace => "ws",
        TokenType::Subexpression => "blank-line",
        TokenType::ExpressionSeparator => "semicolon",
        TokenType::ExpressionTerminator => "terminator",
        TokenType::Annotation | TokenType::LineAnnotation => "annotation",
        TokenType::Number | TokenType::CharList | TokenType::ByteList | TokenType::Symbol | TokenType::UnitLiteral | TokenType::Value | TokenType::True | TokenType::False => "value",
        TokenType::Identifier => "identifier",
        TokenType::StartGroup => "(",
        TokenType::EndGroup => ")",
        TokenType::StartExpression => "{",
        TokenType::EndExpression => "}",
        TokenType::StartSideEffect => "[",
        TokenType::EndSideEffect => "]",
        TokenType::Comma => "comma",
        TokenType::InfixIdentifier => "infix-id",
        TokenType::PrefixIdentifier => "prefix-id",
        TokenType::SuffixIdentifier => "suffix-id",
        TokenType::Pair => "pair",
        TokenType::EmptyApply | TokenType::RightInternal | TokenType::LengthInternal => "suffix",
        TokenType::AbsoluteValue | TokenType::Opposite | TokenType::BitwiseNot | TokenType::Not | TokenType::Tis | TokenType::TypeOf | TokenType::LeftInternal | TokenType::Reapply => "prefix",
        _ => "binary",
    }

}
