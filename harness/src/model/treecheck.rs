//! Parse-tree well-formedness and token accounting (oracle of C04). Iterative: never recurses on the tree.

use garnish_lang_compiler::lex::{LexerToken, TokenType};
use garnish_lang_compiler::parse::{Definition, ParseNode};

#[derive(Debug, Clone)]
pub struct TreeFault {
    pub sig: String,
    pub detail: String,
    /// position of the token the fault is about, when there is one
    pub at: Option<(usize, usize)>,
}

fn fault(sig: impl Into<String>, detail: impl Into<String>) -> TreeFault {
    TreeFault { sig: sig.into(), detail: detail.into(), at: None }
}

fn fault_at(sig: impl Into<String>, detail: impl Into<String>, line: usize, col: usize) -> TreeFault {
    TreeFault { sig: sig.into(), detail: detail.into(), at: Some((line, col)) }
}

pub struct TreeInfo {
    /// node indexes in in-order (left, node, right)
    pub in_order: Vec<usize>,
    pub reachable: Vec<bool>,
}

/// Structure: links agree, no node shared or on a cycle, root has no parent. Returns the in-order walk.
pub fn check_structure(root: usize, nodes: &[ParseNode]) -> Result<TreeInfo, TreeFault> {
    if nodes.is_empty() {
        return Ok(TreeInfo { in_order: vec![], reachable: vec![] });
    }
    if root >= nodes.len() {
        return Err(fault("root-out-of-range", format!("root {} of {} nodes", root, nodes.len())));
    }
    if nodes[root].get_parent().is_some() {
        return Err(fault("root-has-parent", format!("root {} has parent {:?}", root, nodes[root].get_parent())));
    }
    let mut reachable = vec![false; nodes.len()];
    let mut in_order = Vec::with_capacity(nodes.len());
    // explicit stack: (node, state) state 0 = descend left, 1 = emit + descend right
    let mut stack: Vec<(usize, u8)> = vec![(root, 0)];
    while let Some((i, state)) = stack.pop() {
        if state == 0 {
            if reachable[i] {
                return Err(fault(
                    format!("node-reached-twice:{:?}", nodes[i].get_definition()),
                    format!("node {} ({:?} {:?}) is reachable through two links (shared node or cycle)", i, nodes[i].get_definition(), nodes[i].get_lex_token().get_text()),
                ));
            }
            reachable[i] = true;
            stack.push((i, 1));
            if let Some(l) = nodes[i].get_left() {
                if l >= nodes.len() {
                    return Err(fault(format!("dangling-left:{:?}", nodes[i].get_definition()), format!("node {} left link {} past the node list", i, l)));
                }
                if nodes[l].get_parent() != Some(i) {
                    return Err(fault(
                        format!("parent-link-disagrees:{:?}-left-{:?}", nodes[i].get_definition(), nodes[l].get_definition()),
                        format!("node {} ({:?}) has left child {} ({:?}) whose parent link is {:?}", i, nodes[i].get_definition(), l, nodes[l].get_definition(), nodes[l].get_parent()),
                    ));
                }
                stack.push((l, 0));
            }
        } else {
            in_order.push(i);
            if let Some(r) = nodes[i].get_right() {
                if r >= nodes.len() {
                    return Err(fault(format!("dangling-right:{:?}", nodes[i].get_definition()), format!("node {} right link {} past the node list", i, r)));
                }
                if nodes[r].get_parent() != Some(i) {
                    return Err(fault(
                        format!("parent-link-disagrees:{:?}-right-{:?}", nodes[i].get_definition(), nodes[r].get_definition()),
                        format!("node {} ({:?}) has right child {} ({:?}) whose parent link is {:?}", i, nodes[i].get_definition(), r, nodes[r].get_definition(), nodes[r].get_parent()),
                    ));
                }
                stack.push((r, 0));
            }
        }
    }
    Ok(TreeInfo { in_order, reachable })
}

fn is_separator_type(t: TokenType) -> bool {
    matches!(t, TokenType::Subexpression | TokenType::ExpressionSeparator)
}

fn is_trivia_type(t: TokenType) -> bool {
    matches!(t, TokenType::Whitespace | TokenType::Annotation | TokenType::LineAnnotation)
}

fn is_closer(t: TokenType) -> bool {
    matches!(t, TokenType::EndGroup | TokenType::EndExpression | TokenType::EndSideEffect)
}

fn is_opener(t: TokenType) -> bool {
    matches!(t, TokenType::StartGroup | TokenType::StartExpression | TokenType::StartSideEffect)
}

/// Which separator tokens must survive as nodes: between two operand-bearing neighbours, not directly inside a `( )` group
/// (there a blank line is plain white space), not leading/trailing/doubled.
fn required_separators(tokens: &[LexerToken]) -> Vec<bool> {
    let mut req = vec![false; tokens.len()];
    let mut brackets: Vec<TokenType> = vec![];
    for (k, t) in tokens.iter().enumerate() {
        let ty = t.get_token_type();
        if is_opener(ty) {
            brackets.push(ty);
        } else if is_closer(ty) {
            brackets.pop();
        } else if is_separator_type(ty) {
            if brackets.last() == Some(&TokenType::StartGroup) {
                continue;
            }
            let prev = tokens[..k].iter().rev().map(|t| t.get_token_type()).find(|t| !is_trivia_type(*t));
            let next = tokens[k + 1..].iter().map(|t| t.get_token_type()).find(|t| !is_trivia_type(*t));
            let prev_ok = matches!(prev, Some(p) if !is_separator_type(p) && !is_opener(p));
            let next_ok = matches!(next, Some(n) if !is_separator_type(n) && !is_closer(n));
            req[k] = prev_ok && next_ok;
        }
    }
    req
}

/// Token accounting: in-order positions strictly increase; every significant token is the token of exactly one reachable node.
pub fn check_accounting(tokens: &[LexerToken], nodes: &[ParseNode], info: &TreeInfo) -> Vec<TreeFault> {
    let mut faults = vec![];
    // in-order positions
    let mut last: Option<(usize, usize, usize)> = None;
    for &i in &info.in_order {
        let t = nodes[i].get_lex_token();
        let pos = (t.get_line(), t.get_column());
        if let Some((l, c, pi)) = last {
            if (pos.0, pos.1) <= (l, c) {
                faults.push(fault(
                    format!("in-order-not-source-order:{:?}-before-{:?}", nodes[pi].get_definition(), nodes[i].get_definition()),
                    format!(
                        "in-order walk visits {:?} {:?} at ({}, {}) after {:?} {:?} at ({}, {})",
                        nodes[i].get_definition(),
                        t.get_text(),
                        pos.0,
                        pos.1,
                        nodes[pi].get_definition(),
                        nodes[pi].get_lex_token().get_text(),
                        l,
                        c
                    ),
                ));
                break;
            }
        }
        last = Some((pos.0, pos.1, i));
    }
    // map reachable nodes by token position
    let mut used = vec![0u32; tokens.len()];
    let find_tok = |t: &LexerToken| -> Option<usize> { tokens.iter().position(|x| x.get_line() == t.get_line() && x.get_column() == t.get_column() && x.get_text() == t.get_text() && x.get_token_type() == t.get_token_type()) };
    for &i in &info.in_order {
        let t = nodes[i].get_lex_token();
        match find_tok(&t) {
            Some(k) => {
                if nodes[i].get_definition() == Definition::List {
                    // synthesized: carries the token that preceded its second operand (white space)
                    continue;
                }
                used[k] += 1;
            }
            None => {
                faults.push(fault(format!("node-token-not-in-input:{:?}", nodes[i].get_definition()), format!("node {} ({:?}) carries token {:?} that is not in the token stream", i, nodes[i].get_definition(), t.get_text())));
            }
        }
    }
    let req_sep = required_separators(tokens);
    for (k, t) in tokens.iter().enumerate() {
        let ty = t.get_token_type();
        if is_trivia_type(ty) || is_closer(ty) {
            continue;
        }
        if is_separator_type(ty) {
            if used[k] > 1 {
                faults.push(fault("separator-used-twice", format!("separator token at ({}, {}) is carried by {} nodes", t.get_line(), t.get_column(), used[k])));
            }
            if req_sep[k] && used[k] == 0 {
                faults.push(fault_at("separator-dropped", format!("separator {:?} at ({}, {}) stands between two operands but no reachable node carries it", t.get_text(), t.get_line(), t.get_column()), t.get_line(), t.get_column()));
            }
            continue;
        }
        if used[k] == 0 {
            faults.push(fault_at("token-not-in-tree", format!("significant token {:?} ({:?}) at ({}, {}) is not carried by any node reachable from the root", t.get_text(), ty, t.get_line(), t.get_column()), t.get_line(), t.get_column()));
        } else if used[k] > 1 {
            faults.push(fault_at("token-in-tree-twice", format!("token {:?} at ({}, {}) is carried by {} reachable nodes", t.get_text(), t.get_line(), t.get_column(), used[k]), t.get_line(), t.get_column()));
        }
    }
    // unreachable nodes other than dropped separators
    for (i, n) in nodes.iter().enumerate() {
        if !info.reachable[i] && !matches!(n.get_definition(), Definition::Subexpression | Definition::ExpressionSeparator) {
            // already reported as token-not-in-tree unless it is a synthesized list
            if n.get_definition() == Definition::List {
                faults.push(fault("unreachable-list-node", format!("synthesized List node {} is not reachable from the root", i)));
            }
        }
    }
    faults
}

/// Nodes that must own at least one instruction in the metadata.
pub fn needs_instruction(i: usize, nodes: &[ParseNode]) -> bool {
    let n = &nodes[i];
    match n.get_definition() {
        // purely structural
        Definition::Group | Definition::ElseJump | Definition::Drop => false,
        // an inner list of the same kind is flattened into its parent's MakeList
        Definition::List | Definition::CommaList => match n.get_parent().and_then(|p| nodes.get(p)) {
            Some(p) if p.get_definition() == n.get_definition() => false,
            _ => true,
        },
        _ => true,
    }
}
