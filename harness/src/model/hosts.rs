//! Scripted, recording hosts for both data implementations (resolve, external apply, deferred operations).

use crate::model::data::GD;
use crate::model::value::{V, readback};
use garnish_lang_simple_data::{BasicDataCompanion, BasicGarnishData, DataError, NoCustom, SimpleGarnishData, SimpleNumber};
use garnish_lang_traits::{GarnishData, GarnishDataType, Instruction};

#[derive(Clone, Debug, PartialEq, Eq, PartialOrd)]
pub enum Call {
    Resolve(u64),
    /// external number, rendered argument
    Apply(usize, String),
    /// instruction, (type, addr) left, (type, addr) right
    Defer(String, String, usize, String, usize),
}

#[derive(Clone, Debug, Default, PartialEq, Eq, PartialOrd)]
pub struct HostState {
    /// symbol -> number the host answers with
    pub resolve_script: Vec<(u64, i32)>,
    /// external -> number the host answers with (absent = declines)
    pub apply_script: Vec<(usize, i32)>,
    /// deferred operations: Some(n) = accept and answer n
    pub defer_answer: Option<i32>,
    pub log: Vec<Call>,
}

fn answer<D: GarnishData<Number = SimpleNumber, Size = usize, Error = DataError>>(d: &mut D, n: i32) -> Result<(), DataError> {
    let a = d.add_number(SimpleNumber::Integer(n))?;
    d.push_register(a)
}

// ---------------------------------------------------------------------------------------------
// SimpleGarnishData

pub type SimpleHosted = SimpleGarnishData<NoCustom, HostState>;

fn simple_resolver(d: &mut SimpleHosted, sym: u64) -> Result<bool, DataError> {
    d.auxiliary_data_mut().log.push(Call::Resolve(sym));
    let ans = d.auxiliary_data().resolve_script.iter().find(|(s, _)| *s == sym).map(|(_, n)| *n);
    match ans {
        Some(n) => {
            answer(d, n)?;
            Ok(true)
        }
        None => Ok(false),
    }
}

fn simple_op_handler(d: &mut SimpleHosted, ins: Instruction, l: (GarnishDataType, usize), r: (GarnishDataType, usize)) -> Result<bool, DataError> {
    d.auxiliary_data_mut().log.push(Call::Defer(format!("{:?}", ins), format!("{:?}", l.0), l.1, format!("{:?}", r.0), r.1));
    match d.auxiliary_data().defer_answer {
        Some(n) => {
            answer(d, n)?;
            Ok(true)
        }
        None => Ok(false),
    }
}

pub fn new_simple_hosted(state: HostState) -> SimpleHosted {
    let mut d: SimpleHosted = SimpleGarnishData::new_custom();
    *d.auxiliary_data_mut() = state;
    d.set_resolver(simple_resolver);
    d.set_op_handler(simple_op_handler);
    d
}

// ---------------------------------------------------------------------------------------------
// BasicGarnishData

impl BasicDataCompanion<()> for HostState {
    fn resolve(d: &mut BasicGarnishData<(), Self>, sym: u64) -> Result<bool, DataError> {
        d.companion_mut().log.push(Call::Resolve(sym));
        let ans = d.companion().resolve_script.iter().find(|(s, _)| *s == sym).map(|(_, n)| *n);
        match ans {
            Some(n) => {
                answer(d, n)?;
                Ok(true)
            }
            None => Ok(false),
        }
    }

    fn apply(d: &mut BasicGarnishData<(), Self>, external: usize, input_addr: usize) -> Result<bool, DataError> {
        let arg = format!("{}", readback(d, input_addr));
        d.companion_mut().log.push(Call::Apply(external, arg));
        let ans = d.companion().apply_script.iter().find(|(e, _)| *e == external).map(|(_, n)| *n);
        match ans {
            Some(n) => {
                answer(d, n)?;
                Ok(true)
            }
            None => Ok(false),
        }
    }

    fn defer_op(d: &mut BasicGarnishData<(), Self>, ins: Instruction, l: (GarnishDataType, usize), r: (GarnishDataType, usize)) -> Result<bool, DataError> {
        d.companion_mut().log.push(Call::Defer(format!("{:?}", ins), format!("{:?}", l.0), l.1, format!("{:?}", r.0), r.1));
        match d.companion().defer_answer {
            Some(n) => {
                answer(d, n)?;
                Ok(true)
            }
            None => Ok(false),
        }
    }
}

pub type BasicHosted = BasicGarnishData<(), HostState>;

pub fn new_basic_hosted(state: HostState) -> BasicHosted {
    BasicGarnishData::new(state).expect("BasicGarnishData::new")
}

// ---------------------------------------------------------------------------------------------

pub trait Hosted: GD {
    fn host(&self) -> &HostState;
    fn host_mut(&mut self) -> &mut HostState;
}

impl Hosted for SimpleHosted {
    fn host(&self) -> &HostState {
        self.auxiliary_data()
    }
    fn host_mut(&mut self) -> &mut HostState {
        self.auxiliary_data_mut()
    }
}

impl Hosted for BasicHosted {
    fn host(&self) -> &HostState {
        self.companion()
    }
    fn host_mut(&mut self) -> &mut HostState {
        self.companion_mut()
    }
}

/// the reference evaluator's view of the same script
pub fn reference_host(state: &HostState) -> crate::model::refeval::Host {
    crate::model::refeval::Host { resolves: state.resolve_script.iter().map(|(s, n)| (*s, V::Int(*n))).collect(), externals: vec![] }
}
