pub mod data;
