pub mod data;
pub mod reflex;
