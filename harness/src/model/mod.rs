pub mod data;
pub mod reflex;
pub mod stream;
pub mod treecheck;
pub mod pipeline;
pub mod optable;
pub mod refparse;
pub mod sx;
