//! C12 — ordering comparisons agree with the natural order.

use crate::checks::c09::{float_pool, lattice};
use crate::checks::c10::truth_values;
use crate::engine::core::*;
use crate::engine::tape::{Tape, fnv};
use crate::model::data::*;
use crate::model::opcall::call;
use crate::model::value::V;
use garnish_lang_traits::Instruction;
use std::cmp::Ordering;

pub struct C12Check;
pub static C12: C12Check = C12Check;

const OPS: [(Instruction, &str); 4] = [(Instruction::LessThan, "<"), (Instruction::LessThanOrEqual, "<="), (Instruction::GreaterThan, ">"), (Instruction::GreaterThanOrEqual, ">=")];

/// natural order of two comparable values; None = not comparable (all four operators false); Some(None) = NaN involved (unit)
pub fn natural(a: &V, b: &V) -> Option<Option<Ordering>> {
    let f = |v: &V| match v {
        V::Int(i) => Some(*i as f64),
        V::Float(f) => Some(*f),
        _ => None,
    };
    match (a, b) {
        (V::Int(x), V::Int(y)) => Some(Some(x.cmp(y))),
        (V::Int(_) | V::Float(_), V::Int(_) | V::Float(_)) => Some(f(a).unwrap().partial_cmp(&f(b).unwrap())),
        (V::Char(x), V::Char(y)) => Some(Some(x.cmp(y))),
        (V::Byte(x), V::Byte(y)) => Some(Some(x.cmp(y))),
        (V::Text(x), V::Text(y)) => Some(Some(x.cmp(y))),
        (V::Bytes(x), V::Bytes(y)) => Some(Some(x.cmp(y))),
        _ => None,
    }
}

fn strings(max: usize) -> Vec<Vec<char>> {
    let alpha = ['a', 'b', 'é'];
    let mut out: Vec<Vec<char>> = vec![vec![]];
    let mut layer: Vec<Vec<char>> = vec![vec![]];
    for _ in 0..max {
        let mut next = vec![];
        for s in &layer {
            for c in alpha {
                let mut t = s.clone();
                t.push(c);
                next.push(t);
            }
        }
        out.extend(next.iter().cloned());
        layer = next;
    }
    out
}

fn byte_strings(max: usize) -> Vec<Vec<u8>> {
    let alpha = [0u8, 97, 255];
    let mut out: Vec<Vec<u8>> = vec![vec![]];
    let mut layer: Vec<Vec<u8>> = vec![vec![]];
    for _ in 0..max {
        let mut next = vec![];
        for s in &layer {
            for c in alpha {
                let mut t = s.clone();
                t.push(c);
                next.push(t);
            }
        }
        out.extend(next.iter().cloned());
        layer = next;
    }
    out
}

fn kinds(a: &V, b: &V) -> String {
    format!("{}-vs-{}", a.type_name(), b.type_name())
}

impl C12Check {
    fn judge(&self, a: &V, b: &V, ctx: &mut CaseCtx) {
        ctx.render(|| format!("{}  ?  {}", a, b));
        let nat = natural(a, b);
        let different_repr = matches!((a, b), (V::Int(_), V::Float(_)) | (V::Float(_), V::Int(_)));
        let prefix = match (a, b) {
            (V::Text(x), V::Text(y)) => x.len() != y.len() && (x.starts_with(y) || y.starts_with(x)),
            (V::Bytes(x), V::Bytes(y)) => x.len() != y.len() && (x.starts_with(y) || y.starts_with(x)),
            _ => false,
        };
        if different_repr || prefix || nat.is_none() {
            ctx.nontrivial(fnv(format!("{}|{}", a, b).as_bytes()));
        }
        ctx.class(match nat {
            None => "not-comparable",
            Some(None) => "nan",
            Some(Some(_)) => "comparable",
        });
        for imp in Impl::BOTH {
            let mut got: Vec<Option<bool>> = vec![];
            for (ins, name) in OPS {
                for swap in [false, true] {
                    ctx.sub_evals += 1;
                    let (x, y) = if swap { (b, a) } else { (a, b) };
                    let out = match imp {
                        Impl::Simple => call(&mut new_simple(), ins, x, Some(y)),
                        Impl::Basic => call(&mut new_basic(), ins, x, Some(y)),
                    };
                    let out = match out {
                        Ok(o) => o,
                        Err(_) => {
                            ctx.class("operands-not-buildable");
                            return;
                        }
                    };
                    let what = format!("{} {} {} on {}", x, name, y, imp.name());
                    if let Some(loc) = &out.panicked {
                        ctx.fail(format!("panic@{}", loc), what);
                        continue;
                    }
                    if out.left_above_sentinels != 1 || !out.sentinels_intact {
                        ctx.fail(format!("operand-stack-after-comparison:{}", name), format!("{}: {} registers above the sentinels", what, out.left_above_sentinels));
                    }
                    let nat_xy = if swap { nat.map(|o| o.map(|o| o.reverse())) } else { nat };
                    let expected: Result<Option<bool>, ()> = match nat_xy {
                        None => Ok(Some(false)),
                        Some(None) => Ok(None), // unit
                        Some(Some(o)) => Ok(Some(match name {
                            "<" => o.is_lt(),
                            "<=" => o.is_le(),
                            ">" => o.is_gt(),
                            _ => o.is_ge(),
                        })),
                    };
                    let g = match &out.result {
                        Ok(V::True) => Some(Some(true)),
                        Ok(V::False) => Some(Some(false)),
                        Ok(V::Unit) => Some(None),
                        _ => None,
                    };
                    if !swap {
                        got.push(g.and_then(|x| x));
                    }
                    match g {
                        None => ctx.fail(format!("comparison-failed:{}:{}", name, kinds(x, y)), format!("{} gave {:?}", what, out.result)),
                        Some(gv) => {
                            if Ok(gv) != expected {
                                let why = match nat_xy {
                                    None => "not-comparable-must-be-false",
                                    Some(None) => "nan-must-be-unit",
                                    Some(Some(_)) => "disagrees-with-natural-order",
                                };
                                ctx.fail(format!("ordering:{}:{}:{}", why, name, kinds(x, y)), format!("{} gave {:?}, expected {:?}", what, gv, expected.unwrap()));
                            }
                        }
                    }
                }
            }
            // laws on what was observed (independent of the model): exactly one of <, ==, > ; <= is not >
            if let (Some(Some(_)), [Some(lt), Some(le), Some(gt), Some(ge)]) = (nat, &got[..]) {
                if *le == *gt {
                    ctx.fail(format!("law:le-is-not-negation-of-gt:{}", kinds(a, b)), format!("{} vs {} on {}: <= {} and > {}", a, b, imp.name(), le, gt));
                }
                if *ge == *lt {
                    ctx.fail(format!("law:ge-is-not-negation-of-lt:{}", kinds(a, b)), format!("{} vs {} on {}: >= {} and < {}", a, b, imp.name(), ge, lt));
                }
                if *lt && *gt {
                    ctx.fail(format!("law:both-less-and-greater:{}", kinds(a, b)), format!("{} vs {} on {}", a, b, imp.name()));
                }
                // trichotomy with the equality instruction: exactly one of a < b, a == b, a > b
                ctx.sub_evals += 1;
                let eq = match imp {
                    Impl::Simple => call(&mut new_simple(), Instruction::Equal, a, Some(b)),
                    Impl::Basic => call(&mut new_basic(), Instruction::Equal, a, Some(b)),
                };
                if let Ok(o) = eq {
                    if let Ok(v) = &o.result {
                        let e = matches!(v, V::True);
                        let holding = [*lt, e, *gt].iter().filter(|x| **x).count();
                        if holding != 1 {
                            ctx.fail(format!("law:not-exactly-one-of-less-equal-greater:{}", kinds(a, b)), format!("{} vs {} on {}: < {}, == {}, > {}", a, b, imp.name(), lt, e, gt));
                        }
                    }
                }
            }
        }
    }
}

fn numeric_pool() -> Vec<V> {
    let mut v: Vec<V> = lattice().into_iter().map(V::Int).collect();
    for f in float_pool() {
        v.push(V::Float(f));
    }
    // floats one step apart, and sums that differ from the literal in the last place (0.1 + 0.2 vs 0.3)
    for x in [1.0f64, -1.0, 0.5, 0.3, 0.7, 100.0, 1e-17, 2147483647.0] {
        let bits = x.to_bits();
        v.push(V::Float(f64::from_bits(bits + 1)));
        v.push(V::Float(f64::from_bits(bits - 1)));
        v.push(V::Float(x));
    }
    v.push(V::Float(0.1 + 0.2));
    v.push(V::Float(0.1 * 7.0));
    v.push(V::Float(2e-17));
    for n in [0i32, 1, -1, 2, 7, 2147483647, -2147483648, 16777217] {
        for d in [-0.5f64, 0.0, 0.5] {
            v.push(V::Float(n as f64 + d));
        }
    }
    v
}

impl Check for C12Check {
    fn id(&self) -> &'static str {
        "C12"
    }
    fn rule(&self) -> String {
        "Phase numbers: every ordered pair of the C09 boundary lattice (187 integers) plus the float pool and int/float neighbours n-0.5, n, n+0.5, floats one step apart and sums that differ in the last place (mixed int/float pairs included); phase strings: every ordered pair of char lists of length <= 3 over {a, b, é} incl. the empty string and proper prefixes, the same for byte lists over {0, 97, 255}, all pairs of 5 chars and 4 bytes; \
         phase cross-type: every ordered pair of the 32 values of every type (C10's list) plus NaN operands; phase random: longer random strings / byte lists with shared prefixes and random numbers. \
         Each pair is evaluated with the four instructions <, <=, >, >= called directly (operands above two sentinel registers), in both orders, on both data implementations. \
         Oracle: the natural order (numeric with exact int/float comparison; lexicographic by character / byte, shorter prefix first), a<b iff b>a, <= is the negation of >, >= the negation of <, never both < and >, and with the equality instruction exactly one of a < b, a == b, a > b; not comparable combinations give false on all four; a NaN operand gives unit; one result register, sentinels intact. \
         Non-trivial = operands of different representation, one a proper prefix of the other, or a non-comparable combination; distinct = distinct ordered pairs."
            .to_string()
    }
    fn assumptions(&self) -> Vec<String> {
        vec!["slices are outside the statement's operand list and not generated".into()]
    }
    fn phases(&self, tier: Tier) -> Vec<Phase> {
        let n = numeric_pool().len() as u64;
        let s = strings(3).len() as u64;
        let b = byte_strings(3).len() as u64;
        let c = (truth_values().len() + 3) as u64;
        vec![
            Phase::exhaustive("numbers", n * n).with_chunk(1024),
            Phase::exhaustive("strings", s * s + b * b + 25 + 16).with_chunk(128),
            Phase::exhaustive("cross-type", c * c).with_chunk(64),
            Phase::random("random", tier.pick(200_000, 2_000_000), 64).with_min_tape(16).with_chunk(1024),
            Phase::exhaustive("size-sweep", (crate::model::pipeline::SIZE_SWEEP.len() * 2 * 7) as u64).with_chunk(8),
        ]
    }
    fn run(&self, _tier: Tier, phase: usize, input: &Input, ctx: &mut CaseCtx) {
        match (phase, input) {
            (0, Input::Index(i)) => {
                let p = numeric_pool();
                let n = p.len() as u64;
                self.judge(&p[(*i / n) as usize], &p[(*i % n) as usize], ctx);
            }
            (1, Input::Index(i)) => {
                let s = strings(3);
                let b = byte_strings(3);
                let (ns, nb) = (s.len() as u64, b.len() as u64);
                let mut i = *i;
                if i < ns * ns {
                    self.judge(&V::Text(s[(i / ns) as usize].clone()), &V::Text(s[(i % ns) as usize].clone()), ctx);
                    return;
                }
                i -= ns * ns;
                if i < nb * nb {
                    self.judge(&V::Bytes(b[(i / nb) as usize].clone()), &V::Bytes(b[(i % nb) as usize].clone()), ctx);
                    return;
                }
                i -= nb * nb;
                let chars = ['a', 'b', 'é', '漢', '\0'];
                if i < 25 {
                    self.judge(&V::Char(chars[(i / 5) as usize]), &V::Char(chars[(i % 5) as usize]), ctx);
                    return;
                }
                i -= 25;
                let bytes = [0u8, 1, 97, 255];
                self.judge(&V::Byte(bytes[(i / 4) as usize]), &V::Byte(bytes[(i % 4) as usize]), ctx);
            }
            (2, Input::Index(i)) => {
                let mut p = truth_values();
                p.push(V::Float(f64::NAN));
                p.push(V::Float(f64::INFINITY));
                p.push(V::Float(f64::NEG_INFINITY));
                let n = p.len() as u64;
                self.judge(&p[(*i / n) as usize], &p[(*i % n) as usize], ctx);
            }
            (4, Input::Index(i)) => {
                // long texts and byte lists: equal, differing in one position (first, middle, last; smaller or greater), a proper prefix, one longer
                let n = crate::model::pipeline::SIZE_SWEEP[(*i / 14) as usize];
                let bytes = (*i / 7) % 2 == 1;
                let variant = *i % 7;
                let cycle = ['m', 'é', '漢', 'n'];
                let base: Vec<char> = (0..n).map(|k| cycle[k % 4]).collect();
                let mut other = base.clone();
                match variant {
                    0 => {}
                    1 => other[n - 1] = 'a',
                    2 => other[n - 1] = 'z',
                    3 => other[0] = 'a',
                    4 => other[n / 2] = 'z',
                    5 => other.truncate(n - 1),
                    _ => other.push('m'),
                }
                ctx.class("size-sweep");
                if bytes {
                    let f = |v: &Vec<char>| V::Bytes(v.iter().map(|c| (*c as u32 % 251) as u8).collect());
                    self.judge(&f(&base), &f(&other), ctx);
                } else {
                    self.judge(&V::Text(base), &V::Text(other), ctx);
                }
            }
            (3, Input::Tape(t)) => {
                let mut t = Tape::new(t);
                let alpha = ['a', 'b', 'c', 'é', '漢', 'z', ' '];
                match t.choose(3) {
                    0 => {
                        let n = t.choose(12);
                        let base: Vec<char> = (0..n).map(|_| alpha[t.choose(alpha.len())]).collect();
                        let mut other = base.clone();
                        match t.choose(4) {
                            0 => other.truncate(t.choose(n + 1)),
                            1 => other.push(alpha[t.choose(alpha.len())]),
                            2 => {
                                if !other.is_empty() {
                                    let k = t.choose(other.len());
                                    other[k] = alpha[t.choose(alpha.len())];
                                }
                            }
                            _ => {}
                        }
                        self.judge(&V::Text(base), &V::Text(other), ctx);
                    }
                    1 => {
                        let n = t.choose(12);
                        let base: Vec<u8> = (0..n).map(|_| t.byte()).collect();
                        let mut other = base.clone();
                        match t.choose(3) {
                            0 => other.truncate(t.choose(n + 1)),
                            1 => other.push(t.byte()),
                            _ => {
                                if !other.is_empty() {
                                    let k = t.choose(other.len());
                                    other[k] = t.byte();
                                }
                            }
                        }
                        self.judge(&V::Bytes(base), &V::Bytes(other), ctx);
                    }
                    _ => {
                        let a = if t.flag() { V::Int(t.u32() as i32) } else { V::Float(t.u32() as i32 as f64 + [0.0, 0.5, -0.5][t.choose(3)]) };
                        let b = if t.flag() { V::Int(t.u32() as i32) } else { V::Float(t.u32() as i32 as f64 + [0.0, 0.5, -0.5][t.choose(3)]) };
                        self.judge(&a, &b, ctx);
                    }
                }
            }
            _ => {}
        }
    }
}
