//! C14 — literals denote exactly what they spell.

use crate::checks::c01::front_end;
use crate::engine::core::*;
use crate::engine::tape::{Tape, fnv};
use crate::model::data::*;
use crate::model::pipeline::*;
use crate::model::value::{V, readback, same};
use garnish_lang_simple_data::symbol_value;

pub struct C14Check;
pub static C14: C14Check = C14Check;

// ---------------------------------------------------------------------------------------------
// spellings (my own printers for each documented literal form)

fn digits_in_radix(mut v: u32, radix: u32, upper: bool) -> String {
    if v == 0 {
        return "0".into();
    }
    let mut out = vec![];
    while v > 0 {
        let d = v % radix;
        let c = std::char::from_digit(d, radix).unwrap();
        out.push(if upper { c.to_ascii_uppercase() } else { c });
        v /= radix;
    }
    out.iter().rev().collect()
}

fn with_separators(digits: &str, t: &mut Tape) -> String {
    // `_` between digits, never first or last
    let cs: Vec<char> = digits.chars().collect();
    let mut s = String::new();
    for (i, c) in cs.iter().enumerate() {
        s.push(*c);
        if i + 1 < cs.len() && t.chance(60) {
            s.push('_');
        }
    }
    s
}

pub fn spell_int(v: i32, radix: Option<u32>, t: &mut Tape) -> Option<String> {
    if v < 0 {
        return None;
    }
    match radix {
        None => {
            let d = v.to_string();
            Some(if d.starts_with('0') { d } else { with_separators(&d, t) })
        }
        Some(r) => {
            let d = digits_in_radix(v as u32, r, t.flag());
            Some(format!("0{}_{}", r, with_separators(&d, t)))
        }
    }
}

pub fn spell_float(f: f64) -> Option<String> {
    if !f.is_finite() || f < 0.0 || (f == 0.0 && f.is_sign_negative()) {
        return None;
    }
    // plain positional decimal (Display never uses an exponent); must contain a '.' to be a float literal
    let s = format!("{}", f);
    if s.contains('.') { Some(s) } else { Some(format!("{}.0", s)) }
}

/// text literal forms: 1 quote, 3 quotes, 4 quotes
pub fn spell_text(chars: &[char], quotes: usize, escape_non_ascii: bool) -> Option<String> {
    let q: String = "\"".repeat(quotes);
    let mut body = String::new();
    for (i, c) in chars.iter().enumerate() {
        match c {
            '\\' => body.push_str("\\\\"),
            '\n' => body.push_str(if quotes == 1 { "\\n" } else { "\n" }),
            '\t' => body.push_str(if quotes == 1 { "\\t" } else { "\t" }),
            '\r' => body.push_str("\\r"),
            '\0' => body.push_str("\\0"),
            '"' => {
                // a raw quote only inside a longer form, never first, last, or next to another quote
                let neighbours_ok = i > 0 && i + 1 < chars.len() && chars[i - 1] != '"' && chars[i + 1] != '"';
                if quotes >= 3 && neighbours_ok { body.push('"') } else { body.push_str("\\u{22}") }
            }
            c if !c.is_ascii() && escape_non_ascii => body.push_str(&format!("\\u{{{:x}}}", *c as u32)),
            c => body.push(*c),
        }
    }
    if chars.is_empty() {
        return if quotes == 1 { Some("\"\"".to_string()) } else { None };
    }
    Some(format!("{}{}{}", q, body, q))
}

pub fn spell_bytes_quoted(bytes: &[u8]) -> Option<String> {
    // only bytes that have a character spelling inside single quotes
    let mut body = String::new();
    for b in bytes {
        match *b {
            b'\\' => body.push_str("\\\\"),
            b'\n' => body.push_str("\\n"),
            b'\t' => body.push_str("\\t"),
            b'\r' => body.push_str("\\r"),
            0 => body.push_str("\\0"),
            b'\'' => return None,
            b if b.is_ascii() && !b.is_ascii_control() => body.push(b as char),
            _ => return None,
        }
    }
    if bytes.is_empty() { Some("''".into()) } else { Some(format!("'{}'", body)) }
}

pub fn spell_bytes_numeric(bytes: &[u8], quotes: usize) -> Option<String> {
    if bytes.is_empty() {
        return None;
    }
    let q = "'".repeat(quotes.max(3));
    Some(format!("{}{}{}", q, bytes.iter().map(|b| b.to_string()).collect::<Vec<_>>().join(" "), q))
}

// ---------------------------------------------------------------------------------------------

/// evaluate a one-literal program on one implementation; also returns what the symbol table says for `sym_name`
fn eval_literal(imp: Impl, text: &str, sym_name: Option<&str>) -> Result<(V, Option<Option<String>>), String> {
    let parsed = match front_end(text, None) {
        Ok(p) => p,
        Err(g) => return Err(format!("{:?}", g)),
    };
    fn go<D: GD>(d: &mut D, parsed: &garnish_lang_compiler::parse::ParseResult) -> Result<V, String> {
        let b = match build_g(parsed, d) {
            Err(p) => return Err(format!("build panic@{}", p.loc)),
            Ok(Err(e)) => return Err(format!("build rejected: {}", e)),
            Ok(Ok(b)) => b,
        };
        match run_program(d, *b.jump_index(), None, 100) {
            RunEnd::Finished(_) => Ok(d.get_current_value().map(|a| readback(d, a)).unwrap_or(V::Unreadable("no value".into()))),
            RunEnd::Error(e) => Err(format!("run error: {}", e)),
            RunEnd::StepLimit => Err("did not finish".into()),
            RunEnd::Panic(p) => Err(format!("run panic@{}", p.loc)),
        }
    }
    match imp {
        Impl::Simple => {
            let mut d = new_simple();
            let v = go(&mut d, &parsed)?;
            let name = sym_name.map(|n| d.get_symbols().get(&symbol_value(n)).cloned());
            Ok((v, name))
        }
        Impl::Basic => {
            let mut d = new_basic();
            let v = go(&mut d, &parsed)?;
            let name = match sym_name {
                Some(n) => {
                    let r = guard("readback", || d.get_symbol_string(symbol_value(n)));
                    Some(match r {
                        Ok(Ok(x)) => x,
                        Ok(Err(e)) => Some(format!("<error {}>", e)),
                        Err(p) => Some(format!("<panic@{}>", p.loc)),
                    })
                }
                None => None,
            };
            Ok((v, name))
        }
    }
}

impl C14Check {
    fn judge(&self, kind: &str, spelling: &str, expected: &V, alt: Option<&V>, sym_name: Option<&str>, nontrivial: bool, ctx: &mut CaseCtx) {
        ctx.render(|| format!("{} literal {:?} should be {}", kind, spelling, expected));
        ctx.class(kind_static(kind));
        if nontrivial {
            ctx.nontrivial(fnv(spelling.as_bytes()));
        }
        for imp in Impl::BOTH {
            ctx.sub_evals += 1;
            match eval_literal(imp, spelling, sym_name) {
                Err(e) => ctx.fail(format!("literal-not-evaluated:{}:{}", kind, classify_error(&e)), format!("{} literal {:?} (value {}) on {}: {}", kind, spelling, expected, imp.name(), e)),
                Ok((v, name)) => {
                    if !(same(&v, expected) || alt.map(|a| same(&v, a)).unwrap_or(false)) {
                        ctx.fail(format!("literal-denotes-something-else:{}:{}", kind, feature(spelling)), format!("{} literal {:?} on {} evaluates to {} instead of {}", kind, spelling, imp.name(), v, expected));
                    }
                    if let (Some(n), Some(got)) = (sym_name, name) {
                        if got.as_deref() != Some(n) {
                            ctx.fail(format!("symbol-name-not-kept:{}:{}", imp.name(), if n.is_ascii() { "ascii" } else { "non-ascii" }), format!("symbol literal {:?} on {}: the symbol table gives {:?} for it, written name {:?}", spelling, imp.name(), got, n));
                        }
                    }
                }
            }
        }
    }
}

fn kind_static(k: &str) -> &'static str {
    match k {
        "integer" => "integer",
        "radix-integer" => "radix-integer",
        "float" => "float",
        "text" => "text",
        "bytes" => "bytes",
        _ => "symbol",
    }
}

fn classify_error(e: &str) -> &'static str {
    if e.contains("panic") {
        "panic"
    } else if e.contains("Rejected(\"lex\"") {
        "lex-rejected"
    } else if e.contains("Rejected(\"parse\"") {
        "parse-rejected"
    } else if e.contains("build rejected") {
        "build-rejected"
    } else {
        "run-failed"
    }
}

/// which spelling feature is involved (root-cause key)
fn feature(s: &str) -> String {
    let mut f = vec![];
    if s.starts_with('0') && s.contains('_') && !s.starts_with("0.") {
        let r: String = s[1..].chars().take_while(|c| c.is_ascii_digit()).collect();
        f.push(if r.ends_with('0') { "radix-ending-in-zero".to_string() } else { "radix-prefix".to_string() });
    } else if s.contains('_') {
        f.push("separators".to_string());
    }
    if !s.is_ascii() {
        f.push("non-ascii".into());
    }
    if s.contains('\\') {
        f.push("escape".into());
    }
    if s.starts_with("\"\"\"") || s.starts_with("'''") {
        f.push("long-quote-form".into());
    }
    if f.is_empty() { "plain".into() } else { f.join("+") }
}

/// (kind, spelling, value) of literals of every kind and quote form, short bodies included
fn literal_pool() -> Vec<(&'static str, String, V)> {
    let mut out: Vec<(&'static str, String, V)> = vec![];
    for body in ["", "c", "ab", "a\"b", "é", "漢字x", "\n"] {
        let chars: Vec<char> = body.chars().collect();
        for (kind, form) in [("text1", 1usize), ("text3", 3), ("text4", 4)] {
            if let Some(s) = spell_text(&chars, form, false) {
                out.push((kind, s, V::Text(chars.clone())));
            }
        }
    }
    for bytes in [vec![], vec![99u8], vec![97, 98], vec![0, 255]] {
        if let Some(s) = spell_bytes_quoted(&bytes) {
            out.push(("bytes1", s, V::Bytes(bytes.clone())));
        }
        for q in [3usize, 4] {
            if let Some(s) = spell_bytes_numeric(&bytes, q) {
                out.push((if q == 3 { "bytes3" } else { "bytes4" }, s, V::Bytes(bytes.clone())));
            }
        }
    }
    out.push(("integer", "5".into(), V::Int(5)));
    out.push(("integer", "1_000".into(), V::Int(1000)));
    out.push(("radix-integer", "016_ff".into(), V::Int(255)));
    out.push(("float", "3.5".into(), V::Float(3.5)));
    out.push(("symbol", ":k".into(), V::Sym(symbol_value("k"))));
    // the same number as an integer and as a float, and the same integer in two spellings: constants that compare
    // equal (or hash alike) must still keep the kind each literal spells when both occur in one program
    out.push(("float", "5.0".into(), V::Float(5.0)));
    out.push(("radix-integer", "02_101".into(), V::Int(5)));
    out.push(("integer", "0".into(), V::Int(0)));
    out.push(("float", "0.0".into(), V::Float(0.0)));
    out.push(("float", "255.0".into(), V::Float(255.0)));
    out.push(("float", "1000.0".into(), V::Float(1000.0)));
    out
}

/// values just outside the 32-bit integers and far outside
const BIG_INTEGERS: &[u128] = &[
    2147483648, 2147483649, 3000000000, 4294967295, 4294967296, 4294967297, 9007199254740992, 9007199254740993, 9223372036854775807, 9223372036854775808, 18446744073709551615, 18446744073709551616,
    100000000000000000000,
];

const TEXT_ALPHABET: &[char] = &['a', '"', '\\', '\n', '\t', 'é', '漢', '😀', ' '];

fn int_boundaries() -> Vec<i32> {
    let mut v = vec![0, 1, 2, 7, 9, 10, 11, 35, 36, 37, 99, 100, 255, 256, 1000, 65535, 65536, 1 << 20, i32::MAX - 1, i32::MAX, 123456789, 1 << 30];
    for k in 1..31 {
        v.push((1i32 << k) - 1);
        v.push(1i32 << k);
    }
    v.sort();
    v.dedup();
    v
}

impl Check for C14Check {
    fn id(&self) -> &'static str {
        "C14"
    }
    fn rule(&self) -> String {
        "Phase integers: boundary non-negative i32 values (0, 1, 2^k, 2^k-1, MAX, radix and digit-count boundaries) in decimal and in every radix 2..36 as `0R_digits`; phase texts: every string of length <= 3 over {a, \", \\, LF, TAB, é, 漢, 😀, space} in the 1-, 3- and 4-quote forms, non-ASCII characters both raw and as \\u{..}; \
         phase bytes: every byte vector of length <= 2 over {0, 9, 10, 39, 92, 97, 127, 128, 255} in quoted and numeric forms; phase symbols: ASCII and non-ASCII names; phase random: random i32 in random radix with random `_` separators and digit case, random finite non-negative floats in positional decimal form, longer random strings and byte vectors. \
         Oracle (round trip through my own printers): the one-literal program, lexed, parsed, built and run on both data implementations, reads back as exactly the value that was spelled; the symbol table returns the written name of a symbol literal. \
         Non-trivial = the spelling uses a radix prefix, a separator, an escape, a non-ASCII character or a long-quote form; distinct = distinct spellings."
            .to_string()
    }
    fn assumptions(&self) -> Vec<String> {
        vec![
            "spelling rules of docs/src/escape_sequences.md and DESIGN.md §3 C14 (a quote inside text is \\u{22}; the lexer closes a literal at the first run of as many quotes as opened it)".into(),
            "negative numbers, NaN and infinities have no literal spelling and are not generated; exponent forms are not judged".into(),
            "a non-ASCII character inside a quoted byte literal may denote its UTF-8 bytes or its low byte, never extra bytes".into(),
        ]
    }
    fn phases(&self, tier: Tier) -> Vec<Phase> {
        let nb = int_boundaries().len() as u64;
        let k = TEXT_ALPHABET.len() as u64;
        let texts = 1 + k + k * k + k * k * k;
        vec![
            Phase::exhaustive("integers", nb * 36).with_chunk(64),
            Phase::exhaustive("texts", texts * 3 * 2).with_chunk(128),
            Phase::exhaustive("bytes", (1 + 9 + 81) * 3).with_chunk(32),
            Phase::exhaustive("symbols", 12).with_chunk(2),
            Phase::random("random", tier.pick(250_000, 2_500_000), 96).with_min_tape(24).with_chunk(1024),
            Phase::exhaustive("literal-pairs", { let n = literal_pool().len() as u64; n * n * 2 }).with_chunk(64),
            Phase::exhaustive("integers-beyond-32-bits", (BIG_INTEGERS.len() * 6) as u64).with_chunk(8),
            Phase::exhaustive("size-sweep", (crate::model::pipeline::SIZE_SWEEP.len() * 8) as u64).with_chunk(4),
            Phase::exhaustive("latin1-byte-literals", 128 * 3).with_chunk(16),
        ]
    }
    fn run(&self, _tier: Tier, phase: usize, input: &Input, ctx: &mut CaseCtx) {
        match (phase, input) {
            (0, Input::Index(i)) => {
                let vals = int_boundaries();
                let v = vals[(*i / 36) as usize];
                let r = (*i % 36) as u32 + 1; // 1 = plain decimal, 2..36 radix
                let zeros = [0u8; 64];
                let mut t = Tape::new(&zeros);
                let (kind, radix) = if r == 1 { ("integer", None) } else { ("radix-integer", Some(r)) };
                if let Some(s) = spell_int(v, radix, &mut t) {
                    self.judge(kind, &s, &V::Int(v), None, None, radix.is_some(), ctx);
                }
            }
            (1, Input::Index(i)) => {
                let esc = *i % 2 == 1;
                let form = [1usize, 3, 4][((*i / 2) % 3) as usize];
                let mut idx = *i / 6;
                let k = TEXT_ALPHABET.len() as u64;
                let mut len = 0;
                let mut block = 1u64;
                while idx >= block {
                    idx -= block;
                    block *= k;
                    len += 1;
                }
                let mut chars = vec![' '; len];
                for p in (0..len).rev() {
                    chars[p] = TEXT_ALPHABET[(idx % k) as usize];
                    idx /= k;
                }
                if esc && chars.iter().all(|c| c.is_ascii()) {
                    ctx.class("duplicate-spelling-skipped");
                    return;
                }
                if let Some(s) = spell_text(&chars, form, esc) {
                    let nt = s.contains('\\') || !s.is_ascii() || form > 1;
                    self.judge("text", &s, &V::Text(chars.clone()), None, None, nt, ctx);
                }
            }
            (2, Input::Index(i)) => {
                let alpha = [0u8, 9, 10, 39, 92, 97, 127, 128, 255];
                let form = *i % 3;
                let mut idx = *i / 3;
                let bytes: Vec<u8> = if idx == 0 {
                    vec![]
                } else if idx <= 9 {
                    vec![alpha[(idx - 1) as usize]]
                } else {
                    idx -= 10;
                    vec![alpha[(idx / 9) as usize], alpha[(idx % 9) as usize]]
                };
                let s = match form {
                    0 => spell_bytes_quoted(&bytes),
                    1 => spell_bytes_numeric(&bytes, 3),
                    _ => spell_bytes_numeric(&bytes, 4),
                };
                if let Some(s) = s {
                    self.judge("bytes", &s, &V::Bytes(bytes.clone()), None, None, form > 0 || s.contains('\\'), ctx);
                }
            }
            (3, Input::Index(i)) => {
                let names = ["a", "my_symbol", "x1", "A_b_9", "snake_case_name", "a:b", "é", "名前", "naïve", "x漢y", "k", "Zz"];
                let n = names[*i as usize];
                self.judge("symbol", &format!(":{}", n), &V::Sym(symbol_value(n)), None, Some(n), !n.is_ascii() || n.contains('_'), ctx);
            }
            (6, Input::Index(i)) => {
                // digits that spell a number outside the 32-bit integers: decimal forms denote the nearest float; radix forms
                // may be rejected; neither may silently become a different number
                let v: u128 = BIG_INTEGERS[(*i / 6) as usize];
                let form = *i % 6;
                let digits = |radix: u32| {
                    let mut x = v;
                    let mut out = vec![];
                    while x > 0 {
                        out.push(std::char::from_digit((x % radix as u128) as u32, radix).unwrap());
                        x /= radix as u128;
                    }
                    out.iter().rev().collect::<String>()
                };
                let (spelling, radix): (String, Option<u32>) = match form {
                    0 => (digits(10), None),
                    1 => {
                        // separators every three digits from the right
                        let d = digits(10);
                        let mut out = String::new();
                        for (k, c) in d.chars().enumerate() {
                            if k > 0 && (d.len() - k) % 3 == 0 {
                                out.push('_');
                            }
                            out.push(c);
                        }
                        (out, None)
                    }
                    2 => (format!("02_{}", digits(2)), Some(2)),
                    3 => (format!("08_{}", digits(8)), Some(8)),
                    4 => (format!("016_{}", digits(16)), Some(16)),
                    _ => (format!("036_{}", digits(36)), Some(36)),
                };
                let expected = V::Float(v as f64);
                ctx.render(|| format!("literal {:?} spells {} (beyond 32 bits)", spelling, v));
                ctx.class(if radix.is_some() { "big-radix-integer" } else { "big-integer" });
                ctx.nontrivial(fnv(spelling.as_bytes()));
                for imp in Impl::BOTH {
                    ctx.sub_evals += 1;
                    match eval_literal(imp, &spelling, None) {
                        Err(e) if radix.is_some() && classify_error(&e) == "build-rejected" => ctx.class("big-radix-integer-rejected"),
                        Err(e) => ctx.fail(format!("literal-not-evaluated:big-integer:{}", classify_error(&e)), format!("literal {:?} (value {}) on {}: {}", spelling, v, imp.name(), e)),
                        Ok((got, _)) => {
                            if !same(&got, &expected) {
                                ctx.fail(format!("literal-denotes-something-else:big-integer:{}", if radix.is_some() { "radix" } else { "decimal" }), format!("literal {:?} on {} evaluates to {} instead of {} (or, for a radix form, being rejected)", spelling, imp.name(), got, expected));
                            }
                        }
                    }
                }
            }
            (8, Input::Index(i)) => {
                // a quoted byte list lists one byte per character: the characters U+0080..U+00FF spell the bytes 0x80..0xFF
                // (like the numeric form with 233 between triple quotes); alone, between ASCII characters, twice in a row
                let b = 0x80u8 + (*i / 3) as u8;
                let c = char::from(b);
                let (spelled, bytes) = match *i % 3 {
                    0 => (format!("'{}'", c), vec![b]),
                    1 => (format!("'a{}z'", c), vec![97, b, 122]),
                    _ => (format!("'{}{}'", c, c), vec![b, b]),
                };
                self.judge("bytes", &spelled, &V::Bytes(bytes), None, None, true, ctx);
            }
            (7, Input::Index(i)) => {
                // literals of every length around the usual thresholds: texts (ASCII, multi-byte, escaped), byte lists in both
                // forms, symbol names, long digit strings
                let n = crate::model::pipeline::SIZE_SWEEP[(*i / 8) as usize];
                match *i % 8 {
                    0 => {
                        let chars: Vec<char> = (0..n).map(|k| (b'a' + (k % 26) as u8) as char).collect();
                        if let Some(sp) = spell_text(&chars, 1, false) {
                            self.judge("text", &sp, &V::Text(chars), None, None, true, ctx);
                        }
                    }
                    1 => {
                        let chars: Vec<char> = (0..n).map(|k| ['é', '漢', 'a', '😀'][k % 4]).collect();
                        if let Some(sp) = spell_text(&chars, 3, false) {
                            self.judge("text", &sp, &V::Text(chars), None, None, true, ctx);
                        }
                    }
                    2 => {
                        let chars: Vec<char> = (0..n).map(|k| ['é', '\n', '"', '\\'][k % 4]).collect();
                        if let Some(sp) = spell_text(&chars, 1, true) {
                            self.judge("text", &sp, &V::Text(chars), None, None, true, ctx);
                        }
                    }
                    3 => {
                        let bytes: Vec<u8> = (0..n).map(|k| b'a' + (k % 26) as u8).collect();
                        if let Some(sp) = spell_bytes_quoted(&bytes) {
                            self.judge("bytes", &sp, &V::Bytes(bytes), None, None, true, ctx);
                        }
                    }
                    4 => {
                        let bytes: Vec<u8> = (0..n).map(|k| (k * 37 % 256) as u8).collect();
                        if let Some(sp) = spell_bytes_numeric(&bytes, 3) {
                            self.judge("bytes", &sp, &V::Bytes(bytes), None, None, true, ctx);
                        }
                    }
                    5 => {
                        let name: String = (0..n).map(|k| ['n', 'é', '_', '7', '漢'][k % 5]).collect();
                        let name = format!("s{}", name);
                        self.judge("symbol", &format!(":{}", name), &V::Sym(symbol_value(&name)), None, Some(&name), true, ctx);
                    }
                    6 => {
                        // a small integer written with n leading zeros' worth of separators: 1_0_0_..._7 has the value of its digits
                        let digits = format!("{}", 1_000_000 + n as i32);
                        let spelled: String = digits.chars().enumerate().map(|(k, c)| if k > 0 { format!("{}{}", "_".repeat(1 + n % 3), c) } else { c.to_string() }).collect();
                        self.judge("integer", &spelled, &V::Int(1_000_000 + n as i32), None, None, true, ctx);
                    }
                    _ => {
                        // a fraction with n digits after the point
                        let frac: String = (0..n).map(|k| char::from(b'0' + ((k * 7 + 1) % 10) as u8)).collect();
                        let spelled = format!("3.{}", frac);
                        if let Ok(v) = spelled.parse::<f64>() {
                            self.judge("float", &spelled, &V::Float(v), None, None, true, ctx);
                        }
                    }
                }
            }
            (5, Input::Index(i)) => {
                // two literals in one source: what the first one leaves behind in the lexer must not leak into the second
                let pool = literal_pool();
                let n = pool.len() as u64;
                let sep = if *i % 2 == 0 { ", " } else { " " };
                let (a, b) = (&pool[((*i / 2) / n) as usize], &pool[((*i / 2) % n) as usize]);
                let src = format!("{}{}{}", a.1, sep, b.1);
                ctx.render(|| format!("{:?} should be the list of {} and {}", src, a.2, b.2));
                ctx.class("literal-pair");
                ctx.nontrivial(fnv(src.as_bytes()));
                let expected = V::List(vec![a.2.clone(), b.2.clone()]);
                for imp in Impl::BOTH {
                    ctx.sub_evals += 1;
                    match eval_literal(imp, &src, None) {
                        Err(e) => ctx.fail(format!("literal-after-literal-not-evaluated:{}-then-{}:{}", a.0, b.0, classify_error(&e)), format!("{:?} on {}: {} (each literal alone is fine)", src, imp.name(), e)),
                        Ok((v, _)) => {
                            if !same(&v, &expected) {
                                ctx.fail(format!("literal-after-literal-denotes-something-else:{}-then-{}", a.0, b.0), format!("{:?} on {} evaluates to {} instead of {}", src, imp.name(), v, expected));
                            }
                        }
                    }
                }
            }
            (4, Input::Tape(t)) => {
                let mut t = Tape::new(t);
                match t.choose(5) {
                    0 => {
                        let v = (t.u32() >> 1) as i32;
                        let radix = if t.flag() { Some(2 + t.choose(35) as u32) } else { None };
                        if let Some(s) = spell_int(v, radix, &mut t) {
                            let nt = s.contains('_');
                            self.judge(if radix.is_some() { "radix-integer" } else { "integer" }, &s, &V::Int(v), None, None, nt, ctx);
                        }
                    }
                    1 => {
                        let f = match t.choose(4) {
                            0 => (t.u32() as f64) / 1000.0,
                            1 => f64::from_bits(t.u64() & 0x7fff_ffff_ffff_ffff),
                            2 => (t.u32() as f64) * 1e-9,
                            _ => (t.u16() as f64) + [0.5, 0.25, 0.125, 0.1][t.choose(4)],
                        };
                        if let Some(s) = spell_float(f) {
                            if s.len() < 400 {
                                self.judge("float", &s, &V::Float(f), None, None, true, ctx);
                            }
                        }
                    }
                    2 => {
                        let n = t.choose(24);
                        let pool = ['a', 'b', 'z', '"', '\\', '\n', '\t', '\r', '\0', 'é', '漢', '😀', ' ', '{', '}', 'u', '\''];
                        let chars: Vec<char> = (0..n).map(|_| pool[t.choose(pool.len())]).collect();
                        let form = [1usize, 3, 4, 5][t.choose(4)];
                        if let Some(s) = spell_text(&chars, form, t.flag()) {
                            self.judge("text", &s, &V::Text(chars.clone()), None, None, true, ctx);
                        }
                    }
                    3 => {
                        let n = t.choose(16);
                        let bytes: Vec<u8> = (0..n).map(|_| t.byte()).collect();
                        let s = if t.flag() { spell_bytes_quoted(&bytes) } else { spell_bytes_numeric(&bytes, 3 + t.choose(3)) };
                        if let Some(s) = s {
                            self.judge("bytes", &s, &V::Bytes(bytes.clone()), None, None, true, ctx);
                        }
                    }
                    _ => {
                        // a quoted byte literal with a non-ASCII character: its UTF-8 bytes or its low byte, never extra bytes
                        let c = ['é', 'ÿ', '漢'][t.choose(3)];
                        let s = format!("'a{}'", c);
                        let mut utf8 = vec![97u8];
                        utf8.extend_from_slice(c.to_string().as_bytes());
                        let low = vec![97u8, c as u32 as u8];
                        self.judge("bytes", &s, &V::Bytes(utf8), Some(&V::Bytes(low)), None, true, ctx);
                    }
                }
            }
            _ => {}
        }
    }
}
