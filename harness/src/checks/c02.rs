//! C02 — precedence, associativity and grouping follow the operator table.

use crate::engine::core::*;
use crate::engine::tape::{Tape, fnv};
use crate::model::optable::{self, Fix, OPS, OpInfo};
use crate::model::refparse::{Layout, Pratt, Tok, compose, compose_grouped, render};
use crate::model::sx::{self, Sx};
use garnish_lang_compiler::lex::{TokenType, lex};
use garnish_lang_compiler::parse::parse;

pub struct C02Check;
pub static C02: C02Check = C02Check;

const NUM_ATOMS: &[(&str, &str)] = &[("Number", "1"), ("Number", "2"), ("Number", "3"), ("Number", "4"), ("Number", "5"), ("Number", "6"), ("Number", "7")];
const ID_ATOMS: &[(&str, &str)] = &[("Identifier", "a"), ("Identifier", "b"), ("Identifier", "c"), ("Identifier", "d"), ("Identifier", "e"), ("Identifier", "g"), ("Identifier", "h")];

pub enum Parsed {
    Tree(Sx),
    LexRejected,
    LayoutMerge,
    ParseRejected(String),
    Panic(String, String),
}

/// lex + parse `text`; the significant tokens must be exactly those of `toks`
pub fn parse_text(text: &str, toks: Option<&[Tok]>) -> Parsed {
    let tokens = match guard("lex", || lex(text)) {
        Err(p) => return Parsed::Panic(format!("lex-panic@{}", p.loc), p.msg),
        Ok(Err(_)) => return Parsed::LexRejected,
        Ok(Ok(t)) => t,
    };
    if let Some(toks) = toks {
        let expected: Vec<String> = toks.iter().filter_map(|t| t.significant()).collect();
        let actual: Vec<String> = tokens
            .iter()
            .filter(|t| t.get_token_type() != TokenType::Whitespace)
            .map(|t| if t.get_token_type() == TokenType::Subexpression { "\n\n".to_string() } else { t.get_text().clone() })
            .collect();
        if expected != actual {
            return Parsed::LayoutMerge;
        }
    }
    match guard("parse", || parse(&tokens)) {
        Err(p) => Parsed::Panic(format!("parse-panic@{}", p.loc), p.msg),
        Ok(Err(e)) => Parsed::ParseRejected(e.get_message().clone()),
        Ok(Ok(r)) => Parsed::Tree(sx::from_parse(r.get_root(), r.get_nodes())),
    }
}

/// fully parenthesised source of a tree (every operand of every operator in its own group)
pub fn fully_parenthesised(s: &Sx) -> Option<String> {
    match s {
        Sx::Leaf(_, t) => Some(t.clone()),
        Sx::Broken(_) | Sx::ValNode(..) => None,
        Sx::Node(d, l, r) => {
            let wrap = |x: &Sx| -> Option<String> {
                match x {
                    Sx::Leaf(_, t) => Some(t.clone()),
                    other => Some(format!("({})", fully_parenthesised(other)?)),
                }
            };
            match d.as_str() {
                "Group" => Some(format!("({})", fully_parenthesised(r.as_ref()?)?)),
                "NestedExpression" => Some(format!("{{{}}}", fully_parenthesised(r.as_ref()?)?)),
                "List" => Some(format!("{} {}", wrap(l.as_ref()?)?, wrap(r.as_ref()?)?)),
                _ => {
                    let op = optable::by_def(d)?;
                    let text = match op.text {
                        "f`" | "`f" | "`f`" => op.text,
                        t => t,
                    };
                    match op.fix {
                        Fix::Prefix => Some(format!("{} {}", text, wrap(r.as_ref()?)?)),
                        Fix::Suffix => Some(format!("{} {}", wrap(l.as_ref()?)?, text)),
                        _ => Some(format!("{} {} {}", wrap(l.as_ref()?)?, text, wrap(r.as_ref()?)?)),
                    }
                }
            }
        }
    }
}

fn op_key(o: &OpInfo) -> String {
    let special = matches!(o.def, "List" | "CommaList" | "Subexpression" | "ExpressionSeparator" | "Pair" | "InfixApply" | "PrefixApply" | "SuffixApply" | "JumpIfTrue" | "JumpIfFalse" | "ElseJump" | "Reapply");
    format!("{:?}{}", o.fix, if special { format!("[{}]", o.def) } else { String::new() })
}

fn pattern_of(ops: &[&'static OpInfo]) -> String {
    let mut s = String::new();
    for (i, o) in ops.iter().enumerate() {
        if i > 0 {
            let p = ops[i - 1];
            s.push_str(if p.level < o.level {
                " tighter-then-looser "
            } else if p.level > o.level {
                " looser-then-tighter "
            } else {
                " same-level "
            });
        }
        s.push_str(&op_key(o));
    }
    s
}

#[derive(Clone, Copy, PartialEq, Eq, Debug)]
pub enum Outcome {
    Agree,
    Invalid,
    Rejected,
    Merge,
}

impl C02Check {
    /// judge one operator sequence; returns None when the case is fine/invalid, or Some(kind, detail) on disagreement
    fn judge_ops(&self, ops: &[&'static OpInfo], layout: Layout, atoms: &[(&'static str, &str)]) -> (Outcome, Option<(String, String)>) {
        let toks = match compose(ops, atoms) {
            Some(t) => t,
            None => return (Outcome::Invalid, None),
        };
        self.judge_toks(&toks, layout)
    }

    fn judge_toks(&self, toks: &[Tok], layout: Layout) -> (Outcome, Option<(String, String)>) {
        let text = render(toks, layout);
        let expected = match Pratt::parse(toks) {
            Ok(e) => e,
            Err(_) => return (Outcome::Invalid, None),
        };
        match parse_text(&text, Some(toks)) {
            Parsed::LexRejected => (Outcome::Rejected, None),
            Parsed::LayoutMerge => (Outcome::Merge, None),
            Parsed::ParseRejected(_) => (Outcome::Rejected, None),
            Parsed::Panic(sig, msg) => (Outcome::Agree, Some((sig, format!("{:?}: {}", text, msg)))),
            Parsed::Tree(got) => {
                if got != expected {
                    let kind = if got.is_broken() { "broken-tree" } else { "mismatch" };
                    return (Outcome::Agree, Some((kind.to_string(), format!("{:?} parsed as {} but the operator table dictates {}", text, got, expected))));
                }
                // metamorphic: writing out all implied parentheses changes nothing but group nodes
                let has_sep = got.contains_def("Subexpression") || got.contains_def("ExpressionSeparator");
                if !has_sep {
                    if let Some(full) = fully_parenthesised(&got) {
                        match parse_text(&full, None) {
                            Parsed::Tree(t2) => {
                                if t2.strip_groups() != got.strip_groups() {
                                    return (Outcome::Agree, Some(("paren-metamorphic".to_string(), format!("{:?} parsed as {}; fully parenthesised {:?} parsed as {}", text, got, full, t2))));
                                }
                            }
                            Parsed::Panic(sig, msg) => return (Outcome::Agree, Some((sig, format!("{:?}: {}", full, msg)))),
                            Parsed::ParseRejected(m) => {
                                return (Outcome::Agree, Some(("paren-metamorphic-rejected".to_string(), format!("{:?} parsed as {}; its fully parenthesised form {:?} is rejected: {}", text, got, full, m))));
                            }
                            Parsed::LexRejected | Parsed::LayoutMerge => {}
                        }
                    }
                }
                (Outcome::Agree, None)
            }
        }
    }

    /// shrink a failing operator sequence to a minimal failing subsequence with the same failure kind; returns the signature
    fn signature_for(&self, ops: &[&'static OpInfo], layout: Layout, atoms: &[(&'static str, &str)], kind: &str) -> String {
        let mut cur: Vec<&'static OpInfo> = ops.to_vec();
        loop {
            let mut reduced = false;
            for i in 0..cur.len() {
                if cur.len() <= 1 {
                    break;
                }
                let mut cand = cur.clone();
                cand.remove(i);
                if let (_, Some((k, _))) = self.judge_ops(&cand, layout, atoms) {
                    if k == kind {
                        cur = cand;
                        reduced = true;
                        break;
                    }
                }
            }
            if !reduced {
                break;
            }
        }
        format!("{}:{}", kind, pattern_of(&cur))
    }

    fn run_ops(&self, ctx: &mut CaseCtx, ops: &[&'static OpInfo], variant: u64) {
        let (layout, atoms) = match variant {
            0 => (Layout::Spaced, NUM_ATOMS),
            1 => (Layout::Tight, ID_ATOMS),
            2 => (Layout::Spaced, ID_ATOMS),
            _ => (Layout::Tight, NUM_ATOMS),
        };
        ctx.render(|| match compose(ops, atoms) {
            Some(t) => format!("{:?}", render(&t, layout)),
            None => format!("(invalid fixity sequence {:?})", ops.iter().map(|o| o.text).collect::<Vec<_>>()),
        });
        let (outcome, failure) = self.judge_ops(ops, layout, atoms);
        ctx.class(match outcome {
            Outcome::Agree => "parsed",
            Outcome::Invalid => "invalid-fixity-sequence",
            Outcome::Rejected => "rejected-by-lex-or-parse",
            Outcome::Merge => "tokens-merge-in-this-layout",
        });
        if outcome == Outcome::Agree {
            let levels: Vec<u32> = ops.iter().map(|o| o.level).collect();
            let all_same = levels.windows(2).all(|w| w[0] == w[1]);
            if !all_same || ops.len() >= 2 {
                let mut key = vec![variant as u8];
                for o in ops {
                    key.extend_from_slice(o.text.as_bytes());
                    key.push(0);
                }
                ctx.nontrivial(fnv(&key));
            }
        }
        if let Some((kind, detail)) = failure {
            let sig = if kind.contains("panic") { kind.clone() } else { self.signature_for(ops, layout, atoms, &kind) };
            ctx.fail(sig, detail);
        }
    }
}

// ---------------------------------------------------------------------------------------------
// random deeper expressions

/// one binary operator per (level, associativity), plus both separators, the list space and the comma
pub fn context_ops() -> Vec<&'static str> {
    let mut v: Vec<&'static str> = optable::level_representatives().iter().filter(|o| matches!(o.fix, Fix::BinL | Fix::BinR)).map(|o| o.text).collect();
    for extra in [";", "\n\n", " ", ","] {
        if !v.contains(&extra) {
            v.push(extra);
        }
    }
    v
}

/// every nesting of one to three brackets, outermost first
pub fn bracket_contexts() -> Vec<String> {
    let kinds = ['(', '{', '['];
    let mut out: Vec<String> = vec![];
    for a in kinds {
        out.push(a.to_string());
        for b in kinds {
            out.push(format!("{}{}", a, b));
            for c in kinds {
                out.push(format!("{}{}{}", a, b, c));
            }
        }
    }
    out
}

fn pattern_of_texts(o1: &str, o2: &str) -> String {
    let name = |o: &str| match o {
        " " => "list-space".to_string(),
        "\n\n" => "blank-line".to_string(),
        o => o.to_string(),
    };
    format!("{}|{}", name(o1), name(o2))
}

/// the content of the bracket node that lies `depth` brackets deep (each bracket node has its content as right child;
/// a side-effect block hangs off the value before it)
fn innermost_content(t: &Sx, depth: usize) -> Option<&Sx> {
    fn find<'a>(t: &'a Sx, remaining: usize) -> Option<&'a Sx> {
        let (d, l, r) = match t {
            Sx::Node(d, l, r) => (d.as_str(), l, r),
            Sx::ValNode(d, _, l, r) => (d.as_str(), l, r),
            _ => return None,
        };
        if matches!(d, "Group" | "NestedExpression" | "SideEffect") {
            let content = r.as_deref().or(l.as_deref())?;
            return if remaining == 1 { Some(content) } else { find(content, remaining - 1) };
        }
        for c in [l, r].into_iter().flatten() {
            if let Some(x) = find(c, remaining) {
                return Some(x);
            }
        }
        None
    }
    find(t, depth)
}

fn binary_ops() -> Vec<&'static OpInfo> {
    OPS.iter().filter(|o| matches!(o.fix, Fix::BinL | Fix::BinR)).collect()
}
fn prefix_ops() -> Vec<&'static OpInfo> {
    OPS.iter().filter(|o| o.fix == Fix::Prefix).collect()
}
fn suffix_ops() -> Vec<&'static OpInfo> {
    OPS.iter().filter(|o| o.fix == Fix::Suffix).collect()
}

fn gen_expr(t: &mut Tape, depth: u32, out: &mut Vec<Tok>, atom_n: &mut usize, atoms: &[(&'static str, &str)], in_group: bool) {
    let n_operands = 1 + t.choose(if depth == 0 { 5 } else { 3 });
    let bins = binary_ops();
    for i in 0..n_operands {
        if i > 0 {
            // blank-line / `;` separators are whitespace inside a group: keep them out of groups
            let mut o = bins[t.choose(bins.len())];
            if in_group && (o.text == "\n\n" || o.text == ";") {
                o = optable::find("+").unwrap();
            }
            out.push(Tok::Op(o));
        }
        gen_operand(t, depth, out, atom_n, atoms);
    }
}

fn gen_operand(t: &mut Tape, depth: u32, out: &mut Vec<Tok>, atom_n: &mut usize, atoms: &[(&'static str, &str)]) {
    let pre = prefix_ops();
    let suf = suffix_ops();
    let np = [0, 0, 0, 1, 1, 2][t.choose(6)];
    for _ in 0..np {
        out.push(Tok::Op(pre[t.choose(pre.len())]));
    }
    if depth < 3 && t.chance(60) {
        let c = if t.chance(90) { '{' } else { '(' };
        out.push(Tok::Open(c));
        gen_expr(t, depth + 1, out, atom_n, atoms, c == '(');
        out.push(Tok::Close(if c == '(' { ')' } else { '}' }));
    } else {
        let (d, a) = atoms[*atom_n % atoms.len()];
        *atom_n += 1;
        out.push(Tok::Atom(d, a.to_string()));
    }
    let ns = [0, 0, 0, 1, 1, 2][t.choose(6)];
    for _ in 0..ns {
        out.push(Tok::Op(suf[t.choose(suf.len())]));
    }
}

fn random_tokens(tape: &[u8]) -> (Vec<Tok>, Layout) {
    let mut t = Tape::new(tape);
    let layout = if t.flag() { Layout::Tight } else { Layout::Spaced };
    let atoms = if layout == Layout::Tight { ID_ATOMS } else { NUM_ATOMS };
    let mut out = vec![];
    let mut n = 0;
    gen_expr(&mut t, 0, &mut out, &mut n, atoms, false);
    (out, layout)
}

impl Check for C02Check {
    fn id(&self) -> &'static str {
        "C02"
    }
    fn rule(&self) -> String {
        format!(
            "Operator sequences over all {} operators of the independent table (binary incl. implicit space list, comma list, pair, conditionals, apply forms, separators; prefix; suffix; backtick prefix/suffix/infix identifiers): \
             every ordered pair x 4 layout/atom variants and every ordered triple x 2 variants exhaustively (thorough adds every 4-sequence of level representatives), operands inserted where the fixities need them; level-representative triples with one operand wrapped in ( ) / {{ }} or replaced by an empty bracket pair (which is an operand all the same); random deeper expressions with groups and nested expressions from a proptest tape. \
             Oracle: (i) the S-expression of parse(lex(text)) equals the tree of a reference precedence-climbing parser driven only by the table; (ii) printing the obtained tree fully parenthesised and re-parsing gives the same tree modulo Group nodes. \
             Sequences whose fixities cannot follow each other, layouts in which the lexer merges tokens, and inputs the parser rejects are counted, not judged. Non-trivial = accepted sequence with >= 2 operators; distinct = distinct (operator sequence, variant).",
            OPS.len()
        )
    }
    fn assumptions(&self) -> Vec<String> {
        vec![
            "operator levels/associativity as in DESIGN.md Appendix A (docs/src/precedence.md reconciled with repository tests)".into(),
            "a rejected expression is never a violation; only an accepted-but-different tree is".into(),
        ]
    }
    fn phases(&self, tier: Tier) -> Vec<Phase> {
        let n = OPS.len() as u64;
        let mut v = vec![Phase::exhaustive("pairs", n * n * 4).with_chunk(512), Phase::exhaustive("triples", n * n * n * 2).with_chunk(4096)];
        {
            let r = optable::level_representatives().len() as u64;
            // level-representative triples, one operand (position 0..3) wrapped in ( ) or { } or replaced by an empty ( ) / { }, 2 layouts
            v.push(Phase::exhaustive("triples-with-grouped-operand", r * r * r * 4 * 2 * 2 * 2).with_chunk(4096));
        }
        if tier == Tier::Thorough {
            let r = optable::level_representatives().len() as u64;
            v.push(Phase::exhaustive("quads-of-level-representatives", r * r * r * r * 2).with_chunk(8192));
        }
        v.push(Phase::random("random-deep", tier.pick(150_000, 4_000_000), 96).with_min_tape(16).with_chunk(2048));
        {
            let b = context_ops().len() as u64;
            v.push(Phase::exhaustive("bracket-contexts", bracket_contexts().len() as u64 * b * b * 4).with_chunk(512));
        }
        v
    }
    fn run(&self, tier: Tier, phase: usize, input: &Input, ctx: &mut CaseCtx) {
        let n = OPS.len() as u64;
        let phases = self.phases(tier);
        match (phases[phase].name.as_str(), input) {
            ("pairs", Input::Index(i)) => {
                let variant = i % 4;
                let r = i / 4;
                let ops = [&OPS[(r / n) as usize], &OPS[(r % n) as usize]];
                ctx.class("pair");
                self.run_ops(ctx, &ops, variant);
            }
            ("triples", Input::Index(i)) => {
                let variant = i % 2;
                let r = i / 2;
                let ops = [&OPS[(r / (n * n)) as usize], &OPS[((r / n) % n) as usize], &OPS[(r % n) as usize]];
                ctx.class("triple");
                self.run_ops(ctx, &ops, variant);
            }
            ("bracket-contexts", Input::Index(i)) => {
                // brackets override the table only at their own boundary: what stands inside the innermost bracket parses
                // exactly as it parses alone, whatever brackets lie around it (inside a plain group a separator is white
                // space, so bodies with a separator directly inside `( )` are left out)
                let ops = context_ops();
                let b = ops.len() as u64;
                let ctxs = bracket_contexts();
                // the body's first operand plain, led by a prefix operator, or wrapped in a group / a nested expression
                let first = ["a", "-- a", "( a )", "{ a }"][(*i % 4) as usize];
                let i = &(*i / 4);
                let context = &ctxs[(*i / (b * b)) as usize];
                let (o1, o2) = (ops[((*i / b) % b) as usize], ops[(*i % b) as usize]);
                let join = |l: &str, o: &str, r: &str| if o == " " { format!("{} {}", l, r) } else if o == "\n\n" { format!("{}\n\n{}", l, r) } else { format!("{} {} {}", l, o, r) };
                let body = join(&join(first, o1, "b"), o2, "c");
                let has_separator = [o1, o2].iter().any(|o| *o == ";" || *o == "\n\n");
                if has_separator && context.ends_with('(') {
                    ctx.class("separator-directly-in-a-plain-group-skipped");
                    return;
                }
                let mut text = body.clone();
                for kind in context.chars().rev() {
                    text = match kind {
                        '(' => format!("( {} )", text),
                        '{' => format!("{{ {} }}", text),
                        _ => format!("7 [ {} ]", text),
                    };
                }
                ctx.render(|| format!("{:?}", text));
                ctx.class("bracket-context");
                let alone = match parse_text(&body, None) {
                    Parsed::Tree(t) => t,
                    Parsed::Panic(sig, msg) => {
                        ctx.fail(sig, format!("{:?}: {}", body, msg));
                        return;
                    }
                    _ => {
                        ctx.class("body-rejected-alone");
                        return;
                    }
                };
                match parse_text(&text, None) {
                    Parsed::Tree(t) => {
                        ctx.nontrivial(fnv(text.as_bytes()));
                        match innermost_content(&t, context.len()) {
                            Some(inner) if *inner == alone => {}
                            Some(inner) => ctx.fail(
                                format!("bracket-context:{}:{}", context, pattern_of_texts(o1, o2)),
                                format!("{:?} alone parses as {}, inside {:?} the same text parses as {}", body, alone, text, inner),
                            ),
                            None => ctx.fail(format!("bracket-context:{}:brackets-not-nested-in-tree", context), format!("{:?} parses as {}", text, t)),
                        }
                    }
                    Parsed::Panic(sig, msg) => ctx.fail(sig, format!("{:?}: {}", text, msg)),
                    _ => ctx.fail(format!("bracket-context:{}:rejected-in-context:{}", context, pattern_of_texts(o1, o2)), format!("{:?} is accepted alone, {:?} is rejected", body, text)),
                }
            }
            ("triples-with-grouped-operand", Input::Index(i)) => {
                let reps = optable::level_representatives();
                let k = reps.len() as u64;
                let variant = i % 2;
                let open = if (i / 2) % 2 == 0 { '(' } else { '{' };
                let pos = ((i / 4) % 4) as usize;
                // the bracket pair holds one operand, or nothing (an empty pair is an operand all the same)
                let empty = (i / 16) % 2 == 1;
                let mut r = i / 32;
                let mut ops = vec![];
                for _ in 0..3 {
                    ops.push(reps[(r % k) as usize]);
                    r /= k;
                }
                ops.reverse();
                ctx.class(if empty { "triple-with-empty-bracket-pair" } else { "triple-grouped" });
                let (layout, atoms) = if variant == 0 { (Layout::Spaced, NUM_ATOMS) } else { (Layout::Tight, ID_ATOMS) };
                let toks = match compose_grouped(&ops, atoms, pos, open, empty) {
                    Some(t) if t.iter().any(|x| matches!(x, Tok::Open(_))) => t,
                    _ => {
                        ctx.class("invalid-fixity-sequence");
                        return;
                    }
                };
                ctx.render(|| format!("{:?}", render(&toks, layout)));
                let (outcome, failure) = self.judge_toks(&toks, layout);
                ctx.class(match outcome {
                    Outcome::Agree => "parsed",
                    Outcome::Invalid => "invalid-fixity-sequence",
                    Outcome::Rejected => "rejected-by-lex-or-parse",
                    Outcome::Merge => "tokens-merge-in-this-layout",
                });
                if outcome == Outcome::Agree {
                    ctx.nontrivial(fnv(format!("g{}", render(&toks, layout)).as_bytes()));
                }
                if let Some((kind, detail)) = failure {
                    let flat_fails = matches!(self.judge_ops(&ops, layout, atoms), (_, Some((k, _))) if k == kind);
                    let sig = if kind.contains("panic") {
                        kind.clone()
                    } else if flat_fails {
                        self.signature_for(&ops, layout, atoms, &kind)
                    } else {
                        format!("{}:grouped-operand-{}:{}", kind, if open == '(' { "group" } else { "nested-expression" }, pattern_of(&ops))
                    };
                    ctx.fail(sig, detail);
                }
            }
            ("quads-of-level-representatives", Input::Index(i)) => {
                let reps = optable::level_representatives();
                let k = reps.len() as u64;
                let variant = i % 2;
                let mut r = i / 2;
                let mut ops = vec![];
                for _ in 0..4 {
                    ops.push(reps[(r % k) as usize]);
                    r /= k;
                }
                ops.reverse();
                ctx.class("quad");
                self.run_ops(ctx, &ops, variant);
            }
            ("random-deep", Input::Tape(t)) => {
                let (toks, layout) = random_tokens(t);
                ctx.render(|| format!("{:?}", render(&toks, layout)));
                ctx.class("random-deep");
                let (outcome, failure) = self.judge_toks(&toks, layout);
                ctx.class(match outcome {
                    Outcome::Agree => "parsed",
                    Outcome::Invalid => "invalid-fixity-sequence",
                    Outcome::Rejected => "rejected-by-lex-or-parse",
                    Outcome::Merge => "tokens-merge-in-this-layout",
                });
                if outcome == Outcome::Agree {
                    if toks.iter().any(|t| matches!(t, Tok::Open(_))) {
                        ctx.class("with-group");
                    }
                    ctx.nontrivial(fnv(render(&toks, layout).as_bytes()));
                }
                if let Some((kind, detail)) = failure {
                    // signature from the operators alone (groups dropped) when that still fails, else generic
                    let ops: Vec<&'static OpInfo> = toks.iter().filter_map(|t| if let Tok::Op(o) = t { Some(*o) } else { None }).collect();
                    let atoms = if layout == Layout::Tight { ID_ATOMS } else { NUM_ATOMS };
                    let flat_fails = matches!(self.judge_ops(&ops, layout, atoms), (_, Some((k, _))) if k == kind);
                    let sig = if kind.contains("panic") {
                        kind.clone()
                    } else if flat_fails {
                        self.signature_for(&ops, layout, atoms, &kind)
                    } else {
                        format!("{}:with-groups", kind)
                    };
                    ctx.fail(sig, detail);
                }
            }
            _ => {}
        }
    }
    fn render(&self, _tier: Tier, phase: usize, input: &Input) -> String {
        match input {
            Input::Tape(t) => {
                let (toks, layout) = random_tokens(t);
                format!("{:?}", render(&toks, layout))
            }
            Input::Index(i) => format!("phase {} index {}", phase, i),
            Input::Text(s) => s.clone(),
        }
    }
}

/// source text of a random deeper expression (shared with C04–C06)
pub fn random_source(tape: &[u8]) -> String {
    let (toks, layout) = random_tokens(tape);
    render(&toks, layout)
}
