//! C08 — undefined operand combinations yield unit, after offering them to the host.

use crate::checks::c10::truth_values;
use crate::engine::core::*;
use crate::engine::tape::fnv;
use crate::model::data::*;
use crate::model::hosts::{Call, HostState, Hosted, new_basic_hosted, new_simple_hosted};
use crate::model::opcall::{OpOutcome, call};
use crate::model::value::V;
use garnish_lang_traits::Instruction;

pub struct C08Check;
pub static C08: C08Check = C08Check;

pub const BINARY: &[Instruction] = &[
    Instruction::Add,
    Instruction::Subtract,
    Instruction::Multiply,
    Instruction::Divide,
    Instruction::IntegerDivide,
    Instruction::Remainder,
    Instruction::Power,
    Instruction::BitwiseAnd,
    Instruction::BitwiseOr,
    Instruction::BitwiseXor,
    Instruction::BitwiseShiftLeft,
    Instruction::BitwiseShiftRight,
    Instruction::Access,
    Instruction::Apply,
    Instruction::ApplyType,
    Instruction::MakeRange,
    Instruction::MakeStartExclusiveRange,
    Instruction::MakeEndExclusiveRange,
    Instruction::MakeExclusiveRange,
];

use garnish_lang_traits::GarnishDataType as GT;
pub const CAST_TARGETS: &[GT] = &[
    GT::Unit, GT::Number, GT::Type, GT::Char, GT::CharList, GT::Byte, GT::ByteList, GT::Symbol, GT::SymbolList, GT::Pair, GT::Range, GT::Concatenation, GT::Slice, GT::Partial, GT::List, GT::Expression, GT::External, GT::True, GT::False,
    GT::Custom,
];

pub const UNARY: &[Instruction] = &[
    Instruction::Opposite,
    Instruction::AbsoluteValue,
    Instruction::BitwiseNot,
    Instruction::AccessLeftInternal,
    Instruction::AccessRightInternal,
    Instruction::AccessLengthInternal,
    Instruction::EmptyApply,
];

/// Some(true): the language defines a result for this combination (nothing demanded here);
/// Some(false): no result defined -> must be offered to the host, then unit; None: not judged.
pub fn defined(ins: Instruction, l: &str, r: &str) -> Option<bool> {
    use Instruction::*;
    let is = |x: &str, set: &[&str]| set.contains(&x);
    match ins {
        Add | Subtract | Multiply | Divide | IntegerDivide | Remainder | Power | BitwiseAnd | BitwiseOr | BitwiseXor | BitwiseShiftLeft | BitwiseShiftRight | MakeRange | MakeStartExclusiveRange | MakeEndExclusiveRange
        | MakeExclusiveRange => Some(l == "Number" && r == "Number"),
        Opposite | AbsoluteValue | BitwiseNot => Some(l == "Number"),
        AccessLeftInternal | AccessRightInternal => Some(is(l, &["Pair", "Range", "Slice", "Concatenation"])),
        AccessLengthInternal => Some(is(l, &["Pair", "Range", "Slice", "Concatenation", "List", "CharList", "ByteList"])),
        Access => {
            let symish = ["Symbol", "SymbolList", "Number"];
            if is(l, &symish) && is(r, &symish) {
                return Some(!(l == "Number" && r == "Number"));
            }
            if is(l, &["Pair", "List", "Slice", "Concatenation"]) && is(r, &["Number", "Symbol"]) {
                return Some(true);
            }
            if is(l, &["CharList", "ByteList", "Range"]) && r == "Number" {
                return Some(true);
            }
            Some(false)
        }
        Apply => {
            if is(l, &["Expression", "External", "Partial"]) {
                return Some(true);
            }
            let d = (l == "Symbol" && r == "SymbolList")
                || (l == "SymbolList" && (r == "Symbol" || r == "SymbolList"))
                || (l == "Range" && r == "Range")
                || (l == "Slice" && r == "Range")
                || (is(l, &["SymbolList", "List", "Pair"]) && r == "Number")
                || (is(l, &["Pair", "List"]) && r == "Symbol")
                || (l == "List" && r == "SymbolList")
                || (is(l, &["List", "Concatenation", "CharList", "ByteList", "SymbolList"]) && r == "Range");
            Some(d)
        }
        EmptyApply => Some(is(l, &["Expression", "External", "Partial"])),
        ApplyType => {
            // `r` is the target type: the type a Type-valued right operand names, else the right operand's own type
            if l == r || is(r, &["CharList", "ByteList", "Symbol", "True", "False"]) {
                return Some(true);
            }
            if l == "Unit" {
                // unit casts to unit without the host being asked; whether that is a "defined result" is not settled: not judged
                return None;
            }
            let primitive = [("CharList", "Number"), ("Number", "Char"), ("Number", "Byte"), ("Char", "Number"), ("Char", "Byte"), ("Byte", "Number"), ("Byte", "Char"), ("CharList", "Char")];
            if primitive.contains(&(l, r)) {
                return Some(true);
            }
            if r == "List" && is(l, &["SymbolList", "Range", "CharList", "ByteList", "Concatenation", "Slice"]) {
                return Some(true);
            }
            Some(false)
        }
        _ => None,
    }
}

fn run_on(imp: Impl, copy: bool, state: &HostState, ins: Instruction, a: &V, b: Option<&V>) -> Option<(OpOutcome, Vec<Call>, usize)> {
    match imp {
        Impl::Simple => {
            let mut d = new_simple_hosted(state.clone());
            if copy {
                // the build-once, copy-per-execution pattern: the copy must behave like the object the callbacks were installed on
                d = d.clone_with_aux_without_data().ok()?;
            }
            let o = call(&mut d, ins, a, b).ok()?;
            let log = d.host().log.clone();
            // the same combination a second time on the same object: it must be offered again
            let _ = call(&mut d, ins, a, b);
            let again = d.host().log.iter().filter(|c| matches!(c, Call::Defer(..))).count();
            Some((o, log, again))
        }
        Impl::Basic => {
            let mut d = new_basic_hosted(state.clone());
            let o = call(&mut d, ins, a, b).ok()?;
            let log = d.host().log.clone();
            let _ = call(&mut d, ins, a, b);
            let again = d.host().log.iter().filter(|c| matches!(c, Call::Defer(..))).count();
            Some((o, log, again))
        }
    }
}

impl C08Check {
    fn judge(&self, ins: Instruction, a: &V, b: Option<&V>, ctx: &mut CaseCtx) {
        let (lt, rt) = (a.type_name(), b.map(|b| b.type_name()).unwrap_or("Unit"));
        // a cast names its target by a Type value or by a value of that type
        let target: String = match (ins, b) {
            (Instruction::ApplyType, Some(V::Type(t))) => format!("{:?}", t),
            _ => rt.to_string(),
        };
        ctx.render(|| format!("{:?} on {} {}", ins, a, b.map(|b| b.to_string()).unwrap_or_default()));
        let def = defined(ins, lt, &target);
        match def {
            Some(true) => {
                ctx.class("defined-combination");
                return;
            }
            None => {
                ctx.class("not-judged");
                return;
            }
            Some(false) => {}
        }
        ctx.class("undefined-combination");
        ctx.nontrivial(fnv(format!("{:?}|{}|{:?}", ins, a, b.map(|b| b.to_string())).as_bytes()));
        let modes: [(&str, HostState); 2] = [("declining", HostState::default()), ("accepting", HostState { defer_answer: Some(4242), ..HostState::default() })];
        for (imp, copy) in [(Impl::Simple, false), (Impl::Simple, true), (Impl::Basic, false)] {
            for (mode, state) in &modes {
                ctx.sub_evals += 1;
                let (out, log, offered_after_second_call) = match run_on(imp, copy, state, ins, a, b) {
                    Some(x) => x,
                    None => {
                        ctx.class("operands-not-buildable");
                        return;
                    }
                };
                let key = format!("{:?}:{}:{}", ins, lt, if b.is_some() { if target != rt { format!("Type({})", target) } else { rt.to_string() } } else { "-".to_string() });
                let what = format!("{:?} on ({}, {}) on {} with a {} host", ins, a, b.map(|b| b.to_string()).unwrap_or("-".into()), if copy { "a clone_with_aux_without_data copy of SimpleGarnishData" } else { imp.name() }, mode);
                if let Some(loc) = &out.panicked {
                    ctx.fail(format!("panic@{}", loc), what);
                    continue;
                }
                if let Err(e) = &out.result {
                    ctx.fail(format!("undefined-combination-fails:{}", key), format!("{} returned an error instead of offering the operation to the host: {}", what, e));
                    continue;
                }
                let defers: Vec<&Call> = log.iter().filter(|c| matches!(c, Call::Defer(..))).collect();
                if defers.len() != 1 {
                    ctx.fail(
                        format!("host-offered-{}-times:{}", if defers.is_empty() { "zero".to_string() } else { defers.len().to_string() }, key),
                        format!("{}: the deferred-operation callback was invoked {} times (must be exactly once)", what, defers.len()),
                    );
                } else if let Call::Defer(op, l_ty, l_addr, r_ty, r_addr) = defers[0] {
                    let op_ok = *op == format!("{:?}", ins);
                    let left_ok = l_ty == lt && *l_addr == out.left_addr;
                    let right_ok = if b.is_some() { (r_ty == rt || *r_ty == target) && *r_addr == out.right_addr } else { true };
                    if !op_ok {
                        ctx.fail(format!("host-told-wrong-operation:{}", key), format!("{}: callback received operation {}", what, op));
                    }
                    if !left_ok || !right_ok {
                        ctx.fail(
                            format!("host-given-wrong-operands:{}", key),
                            format!("{}: callback received left ({}, {}) right ({}, {}); the operands are left ({}, {}) right ({}, {})", what, l_ty, l_addr, r_ty, r_addr, lt, out.left_addr, rt, out.right_addr),
                        );
                    }
                }
                if defers.len() == 1 && offered_after_second_call != 2 {
                    ctx.fail(
                        format!("host-not-offered-the-second-time:{}", key),
                        format!("{}: executed twice on the same data object, the callback was invoked {} times in all (must be once per execution)", what, offered_after_second_call),
                    );
                }
                if out.left_above_sentinels != 1 || !out.sentinels_intact {
                    ctx.fail(
                        format!("result-count:{}:{}", if out.left_above_sentinels > 1 { "more-than-one" } else { "none-or-operands-eaten" }, key),
                        format!("{}: {} registers above the sentinels afterwards (must be exactly 1), sentinels intact: {}", what, out.left_above_sentinels, out.sentinels_intact),
                    );
                    continue;
                }
                match (&out.result, *mode) {
                    (Ok(V::Unit), "declining") => {}
                    (Ok(V::Int(4242)), "accepting") => {}
                    (other, _) => ctx.fail(format!("wrong-result-after-{}:{}", mode, key), format!("{}: result {:?}", what, other)),
                }
            }
        }
    }
}

impl Check for C08Check {
    fn id(&self) -> &'static str {
        "C08"
    }
    fn rule(&self) -> String {
        format!(
            "The finite matrix, exhaustively: {} binary instructions (arithmetic, bitwise, access, apply, cast, the four range constructors) x every ordered pair of 32 representative values covering all 20 value types (empty, singleton, typical, nested), and {} unary instructions (arithmetic prefixes, internal accessors, empty apply) x the 32 values, \
             each on SimpleGarnishData, on a copy of it made with clone_with_aux_without_data after the callback was installed, and on BasicGarnishData, with a declining and an accepting deferred-operation callback (the callback absent is the declining case of SimpleGarnishData's default handler). Instructions are called directly with operands placed through the data API above two sentinel registers. \
             For every combination outside the table of defined combinations (DESIGN.md Appendix C): the call returns Ok, the callback is invoked exactly once with this instruction and both operands (type and address) in source order, declining leaves exactly one new register holding unit, accepting leaves exactly the callback's value, sentinels untouched; executed a second time on the same data object the combination is offered again. \
             Phase cast-targets: every one of the 32 values cast to every one of the 20 types, the target given as a type value. \
             Non-trivial = a combination outside the defined table; distinct = distinct (instruction, operand values).",
            BINARY.len(),
            UNARY.len()
        )
    }
    fn assumptions(&self) -> Vec<String> {
        vec!["DEFINED(op) as in DESIGN.md Appendix C; a cast is defined when source and target type agree, towards text, bytes, symbol and the booleans, between number / character / byte / one-character text, and from the sequence kinds to a list; a cast of unit is not judged".into()]
    }
    fn phases(&self, _tier: Tier) -> Vec<Phase> {
        let n = truth_values().len() as u64;
        vec![
            Phase::exhaustive("binary-matrix", BINARY.len() as u64 * n * n).with_chunk(512),
            Phase::exhaustive("unary-matrix", UNARY.len() as u64 * n).with_chunk(16),
            Phase::exhaustive("identifier-against-every-input-type", n).with_chunk(4),
            Phase::exhaustive("cast-targets", n * CAST_TARGETS.len() as u64).with_chunk(16),
        ]
    }
    fn run(&self, _tier: Tier, phase: usize, input: &Input, ctx: &mut CaseCtx) {
        let vals = truth_values();
        let n = vals.len() as u64;
        match (phase, input) {
            (0, Input::Index(i)) => {
                let ins = BINARY[(*i / (n * n)) as usize];
                let r = *i % (n * n);
                self.judge(ins, &vals[(r / n) as usize], Some(&vals[(r % n) as usize]), ctx);
            }
            (1, Input::Index(i)) => {
                let ins = UNARY[(*i / n) as usize];
                self.judge(ins, &vals[(*i % n) as usize], None, ctx);
            }
            (3, Input::Index(i)) => {
                // every value cast to every type, the target given as a type value
                let t = CAST_TARGETS[(*i % CAST_TARGETS.len() as u64) as usize];
                ctx.class("cast-to-type-value");
                self.judge(Instruction::ApplyType, &vals[(*i / CAST_TARGETS.len() as u64) as usize], Some(&V::Type(t)), ctx);
            }
            (2, Input::Index(i)) => {
                // an identifier looked up in an input value of a type that cannot hold names: no error, host asked once, unit if it declines
                let v = &vals[*i as usize];
                ctx.render(|| format!("identifier `zz` with $ = {} ({})", v, v.type_name()));
                ctx.class("identifier-lookup");
                ctx.nontrivial(fnv(format!("resolve|{}", v).as_bytes()));
                let zz = garnish_lang_simple_data::symbol_value("zz");
                for imp in Impl::BOTH {
                    for (mode, state) in [("declining", HostState::default()), ("accepting", HostState { resolve_script: vec![(zz, 4242)], ..HostState::default() })] {
                        ctx.sub_evals += 1;
                        let (got, log) = crate::checks::hostrun::run_hosted(imp, "zz", None, v, &state, 200);
                        let resolves = log.iter().filter(|c| matches!(c, Call::Resolve(s) if *s == zz)).count();
                        let what = format!("identifier `zz` with $ = {} on {} with a {} host", v, imp.name(), mode);
                        match got {
                            crate::checks::c01::Got::Value(r) => {
                                if resolves != 1 {
                                    ctx.fail(format!("resolve-called-{}-times:{}", resolves, v.type_name()), format!("{}: resolve callback invoked {} times", what, resolves));
                                }
                                let ok = matches!((&r, mode), (V::Unit, "declining") | (V::Int(4242), "accepting"));
                                if !ok {
                                    ctx.fail(format!("wrong-result-after-{}:Resolve:{}", mode, v.type_name()), format!("{}: result {}", what, r));
                                }
                            }
                            crate::checks::c01::Got::HarnessError(_) => {}
                            other => ctx.fail(format!("identifier-lookup-fails:{}", v.type_name()), format!("{}: {:?}", what, other)),
                        }
                    }
                }
            }
            _ => {}
        }
    }
}
