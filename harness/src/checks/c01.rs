//! C01 — compiled programs compute what the source means.

use crate::engine::core::*;
use crate::engine::tape::{Tape, fnv};
use crate::model::astgen;
use crate::model::data::*;
use crate::model::pipeline::*;
use crate::model::refeval::{Eval, Host, Stop};
use crate::model::refparse::{Layout, Tok, render};
use crate::model::sx::Sx;
use crate::model::value::{self, V, pair, readback, same, sym, text};
use crate::model::valuepool;
use garnish_lang_compiler::lex::TokenType;

pub struct C01Check;
pub static C01: C01Check = C01Check;

pub fn inputs() -> Vec<V> {
    vec![
        V::Unit,
        V::List(vec![pair(sym("k"), V::Int(3)), pair(sym("j"), V::List(vec![V::Int(1), V::Int(2)]))]),
        V::Int(7),
        text("s"),
        pair(sym("k"), V::Int(3)),
        V::List(vec![V::Int(1), V::Int(2), V::Int(3)]),
        V::List(vec![pair(sym("j"), V::Int(9)), V::Int(5), pair(sym("k"), text("ab"))]),
        // a name bound to unit (found in the input, so the host is not asked, and the value is unit)
        V::List(vec![pair(sym("k"), V::Unit), pair(sym("j"), V::Int(9))]),
        // concatenations as input (what a partially applied expression runs with): associations nested to the right, and lists
        V::Concat(Box::new(pair(sym("k"), V::Int(3))), Box::new(V::Concat(Box::new(pair(sym("j"), V::Int(9))), Box::new(pair(sym("i"), V::Int(1)))))),
        V::Concat(Box::new(V::List(vec![pair(sym("k"), V::Int(3)), V::Int(5)])), Box::new(V::List(vec![pair(sym("j"), V::List(vec![V::Int(1), V::Int(2)])), V::Int(6)]))),
    ]
}

#[derive(Debug, Clone)]
pub enum Got {
    Value(V),
    Rejected(&'static str, String),
    RuntimeError(String),
    StepLimit,
    Panic(&'static str, String),
    HarnessError(String),
}

/// lex + parse + build + run `text` on a fresh data object of `imp` with input value `input`
pub fn run_real(imp: Impl, text: &str, expected_tokens: Option<&[Tok]>, input: &V, max_steps: usize) -> Got {
    let tokens = match lex_g(text) {
        Err(p) => return Got::Panic("lex", p.loc),
        Ok(Err(e)) => return Got::Rejected("lex", e),
        Ok(Ok(t)) => t,
    };
    if let Some(toks) = expected_tokens {
        let exp: Vec<String> = toks.iter().filter_map(|t| t.significant()).collect();
        let act: Vec<String> = tokens
            .iter()
            .filter(|t| !matches!(t.get_token_type(), TokenType::Whitespace | TokenType::Annotation | TokenType::LineAnnotation))
            .map(|t| if t.get_token_type() == TokenType::Subexpression { "\n\n".to_string() } else { t.get_text().clone() })
            .collect();
        if exp != act {
            return Got::Rejected("layout-merge", String::new());
        }
    }
    let parsed = match parse_g(&tokens) {
        Err(p) => return Got::Panic("parse", p.loc),
        Ok(Err(e)) => return Got::Rejected("parse", e),
        Ok(Ok(p)) => p,
    };
    if tree_has_cycle(parsed.get_root(), parsed.get_nodes()) {
        return Got::Rejected("parse-cyclic", String::new());
    }
    match imp {
        Impl::Simple => run_parsed(&mut new_simple(), &parsed, input, max_steps),
        Impl::Basic => run_parsed(&mut new_basic(), &parsed, input, max_steps),
    }
}

/// lex + parse only (with the token check); Err = what to report instead of a run
pub fn front_end(text: &str, expected_tokens: Option<&[Tok]>) -> Result<garnish_lang_compiler::parse::ParseResult, Got> {
    let tokens = match lex_g(text) {
        Err(p) => return Err(Got::Panic("lex", p.loc)),
        Ok(Err(e)) => return Err(Got::Rejected("lex", e)),
        Ok(Ok(t)) => t,
    };
    if let Some(toks) = expected_tokens {
        let exp: Vec<String> = toks.iter().filter_map(|t| t.significant()).collect();
        let act: Vec<String> = tokens
            .iter()
            .filter(|t| !matches!(t.get_token_type(), TokenType::Whitespace | TokenType::Annotation | TokenType::LineAnnotation))
            .map(|t| if t.get_token_type() == TokenType::Subexpression { "\n\n".to_string() } else { t.get_text().clone() })
            .collect();
        if exp != act {
            return Err(Got::Rejected("layout-merge", String::new()));
        }
    }
    let parsed = match parse_g(&tokens) {
        Err(p) => return Err(Got::Panic("parse", p.loc)),
        Ok(Err(e)) => return Err(Got::Rejected("parse", e)),
        Ok(Ok(p)) => p,
    };
    if tree_has_cycle(parsed.get_root(), parsed.get_nodes()) {
        return Err(Got::Rejected("parse-cyclic", String::new()));
    }
    Ok(parsed)
}

/// build + run a parsed program on the given data object
pub fn run_parsed<D: GD>(d: &mut D, parsed: &garnish_lang_compiler::parse::ParseResult, input: &V, max_steps: usize) -> Got {
    {
        let b = match build_g(parsed, d) {
            Err(p) => return Got::Panic("build", p.loc),
            Ok(Err(e)) => return Got::Rejected("build", e),
            Ok(Ok(b)) => b,
        };
        let entry = *b.jump_index();
        let ia = match value::build_value(d, input) {
            Ok(a) => a,
            Err(e) => return Got::HarnessError(format!("cannot build input value: {}", e)),
        };
        match run_program(d, entry, Some(ia), max_steps) {
            RunEnd::Finished(_) => match d.get_current_value() {
                Some(a) => Got::Value(readback(d, a)),
                None => Got::RuntimeError("no current value after the run".into()),
            },
            RunEnd::Error(e) => Got::RuntimeError(e),
            RunEnd::StepLimit => Got::StepLimit,
            RunEnd::Panic(p) => Got::Panic("run", p.loc),
        }
    }
}

#[derive(Debug, Clone, PartialEq)]
pub enum Verdict {
    Agree,
    Skip(&'static str),
    Fail(String, String),
}

/// judge one (program text, reference tree, input) on one implementation
pub fn judge_one(imp: Impl, text: &str, toks: &[Tok], reference: &Sx, input: &V, used: &mut Vec<&'static str>) -> Verdict {
    let host = Host::default();
    let mut ev = Eval::new(&host, 20_000);
    let expected = match ev.run(reference, input.clone()) {
        Ok(v) => v,
        Err(Stop::Undefined(w)) => return Verdict::Skip(w),
        Err(Stop::Budget) => return Verdict::Skip("reference-budget"),
        Err(Stop::Reapply(_)) => return Verdict::Skip("reference-budget"),
    };
    for u in &ev.used {
        if !used.contains(u) {
            used.push(u);
        }
    }
    match run_real(imp, text, Some(toks), input, ev.steps * 16 + 256) {
        Got::Value(v) => {
            if same(&v, &expected) {
                Verdict::Agree
            } else {
                Verdict::Fail("result-mismatch".into(), format!("expected {} got {}", expected, v))
            }
        }
        Got::Rejected("layout-merge", _) => Verdict::Skip("layout-merge"),
        Got::Rejected(stage, msg) => Verdict::Fail(format!("well-formed-program-rejected-by-{}", stage), format!("reference value {} but {} rejected it: {}", expected, stage, msg)),
        Got::RuntimeError(e) => Verdict::Fail("runtime-error".into(), format!("expected {} but execution failed: {}", expected, e)),
        Got::StepLimit => Verdict::Fail("did-not-finish".into(), format!("expected {} after {} reference steps, execution did not finish in {} steps", expected, ev.steps, ev.steps * 16 + 256)),
        Got::Panic(stage, loc) => Verdict::Fail(format!("{}-panic@{}", stage, loc), format!("expected {}", expected)),
        Got::HarnessError(e) => Verdict::Skip(if e.is_empty() { "harness" } else { "input-not-buildable" }),
    }
}

fn children(n: &Sx) -> Vec<&Sx> {
    match n {
        Sx::Node(_, l, r) | Sx::ValNode(_, _, l, r) => [l, r].into_iter().flatten().map(|b| &**b).collect(),
        _ => vec![],
    }
}

fn type_of_child(c: &Sx, input: &V) -> String {
    let host = Host::default();
    let mut ev = Eval::new(&host, 5000);
    match ev.run(c, input.clone()) {
        Ok(v) => v.type_name().to_string(),
        Err(_) => "?".to_string(),
    }
}

fn def_of(n: &Sx) -> String {
    match n {
        Sx::Leaf(d, _) | Sx::Node(d, _, _) | Sx::ValNode(d, _, _, _) => d.clone(),
        Sx::Broken(_) => "Broken".into(),
    }
}

/// descend into the smallest sub-program that still fails the same way; key the finding by its root and operand types
pub fn minimal_key(imp: Impl, ast: &Sx, input: &V, kind: &str, depth: usize) -> String {
    let mut budget = 60usize;
    minimal_key_b(imp, ast, input, kind, depth, &mut budget)
}

fn minimal_key_b(imp: Impl, ast: &Sx, input: &V, kind: &str, depth: usize, budget: &mut usize) -> String {
    if depth < 12 && *budget > 0 {
        for c in children(ast) {
            let c = match c {
                Sx::Node(d, None, Some(inner)) if d == "Group" || d == "SideEffect" => &**inner,
                other => other,
            };
            if let Some((toks, reference, _)) = astgen::printable(&c.strip_groups()) {
                let text = render(&toks, Layout::Spaced);
                let mut used = vec![];
                *budget = budget.saturating_sub(1);
                if let Verdict::Fail(k, _) = judge_one(imp, &text, &toks, &reference, input, &mut used) {
                    if k == kind {
                        return minimal_key_b(imp, &c.strip_groups(), input, kind, depth + 1, budget);
                    }
                }
            }
        }
    }
    let kids: Vec<String> = children(ast).iter().map(|c| type_of_child(c, input)).collect();
    format!("{}({})", def_of(ast), kids.join(","))
}

impl C01Check {
    pub fn judge_ast(&self, ast: &Sx, input_ids: &[usize], layouts: &[Layout], ctx: &mut CaseCtx) {
        // explicit Group nodes (control-flow skeletons) are kept: parentheses around a conditional change what it belongs to
        let printed = if ast.contains_def("Group") { astgen::printable_keep_groups(ast) } else { astgen::printable(ast) };
        let (toks, reference, minimal) = match printed {
            Some(x) => x,
            None => {
                ctx.class("not-printable");
                return;
            }
        };
        if !minimal {
            ctx.class("printed-with-extra-parentheses");
        }
        let all_inputs = inputs();
        let mut used: Vec<&'static str> = vec![];
        let mut judged = 0;
        ctx.render(|| format!("{:?}", render(&toks, layouts[0])));
        for layout in layouts {
            let text = render(&toks, *layout);
            for &ii in input_ids {
                let input = &all_inputs[ii % all_inputs.len()];
                for imp in Impl::BOTH {
                    ctx.sub_evals += 1;
                    match judge_one(imp, &text, &toks, &reference, input, &mut used) {
                        Verdict::Agree => judged += 1,
                        Verdict::Skip(why) => {
                            ctx.class(match why {
                                "layout-merge" => "layout-merge",
                                "reference-budget" => "reference-budget",
                                _ => "reference-undefined",
                            });
                            if why != "layout-merge" {
                                // undefined for the reference: same for every implementation and layout
                                break;
                            }
                            if matches!(layout, Layout::Spaced) {
                                // every token stands between blanks: by the language's token rules nothing can merge, so a lexer
                                // that returns other tokens has misread the program (not something to skip)
                                ctx.fail(format!("spaced-program-lexed-into-other-tokens:{}", imp.name()), format!("{:?}: the lexer does not return the tokens the program is written with", text));
                            }
                        }
                        Verdict::Fail(kind, detail) => {
                            judged += 1;
                            let key = if kind.contains("panic") { String::new() } else { format!(":{}", minimal_key(imp, ast, input, &kind, 0)) };
                            ctx.fail(format!("{}:{}{}", kind, imp.name(), key), format!("{:?} with $ = {} on {}: {}", text, input, imp.name(), detail));
                        }
                    }
                }
            }
        }
        if judged > 0 {
            ctx.class("judged");
            for u in &used {
                ctx.class(u);
            }
            let operators = ast.size() - count_leaves(ast);
            if operators >= 2 && used.len() >= 2 {
                ctx.nontrivial(fnv(format!("{}", ast).as_bytes()));
            }
        }
    }
}

impl C01Check {
    /// judge a program given as text: read by the reference parser (independent operator table), evaluated by the reference
    pub fn judge_text(&self, text: &str, input_ids: &[usize], ctx: &mut CaseCtx) {
        ctx.render(|| format!("{:?}", text));
        let toks = match crate::model::refparse::tokens_from_text(text) {
            Ok(t) => t,
            Err(_) => {
                ctx.class("text-not-tokenised");
                return;
            }
        };
        let reference = match crate::model::refparse::Pratt::parse(&toks) {
            Ok(r) => r,
            Err(_) => {
                ctx.class("reference-parser-rejects");
                return;
            }
        };
        let ast = reference.strip_groups();
        let all_inputs = inputs();
        let mut used: Vec<&'static str> = vec![];
        let mut judged = 0;
        for &ii in input_ids {
            let input = &all_inputs[ii % all_inputs.len()];
            for imp in Impl::BOTH {
                ctx.sub_evals += 1;
                match judge_one(imp, text, &toks, &reference, input, &mut used) {
                    Verdict::Agree => judged += 1,
                    Verdict::Skip(why) => {
                        ctx.class(match why {
                            "layout-merge" => "layout-merge",
                            "reference-budget" => "reference-budget",
                            _ => "reference-undefined",
                        });
                        break;
                    }
                    Verdict::Fail(kind, detail) => {
                        judged += 1;
                        let key = if kind.contains("panic") { String::new() } else { format!(":{}", minimal_key(imp, &ast, input, &kind, 0)) };
                        ctx.fail(format!("{}:{}{}", kind, imp.name(), key), format!("{:?} with $ = {} on {}: {}", text, input, imp.name(), detail));
                    }
                }
            }
        }
        if judged > 0 {
            ctx.class("judged");
            for u in &used {
                ctx.class(u);
            }
            ctx.nontrivial(fnv(text.as_bytes()));
        }
    }
}

fn count_leaves(n: &Sx) -> usize {
    match n {
        Sx::Leaf(..) | Sx::Broken(_) => 1,
        Sx::ValNode(_, _, l, r) => 1 + l.as_ref().map(|x| count_leaves(x)).unwrap_or(0) + r.as_ref().map(|x| count_leaves(x)).unwrap_or(0),
        Sx::Node(_, l, r) => l.as_ref().map(|x| count_leaves(x)).unwrap_or(0) + r.as_ref().map(|x| count_leaves(x)).unwrap_or(0),
    }
}

impl Check for C01Check {
    fn id(&self) -> &'static str {
        "C01"
    }
    fn rule(&self) -> String {
        format!(
            "Phase exhaustive: every AST with at most k nodes (k=4 quick, 5 thorough) over {} leaves (number, float, text, symbol, unit, $?, $!, $, two identifiers), {} unary constructs (arithmetic/bitwise/logical prefixes, internal accessors, empty apply, {{ }}, ^~) and {} binary constructs \
             (arithmetic, bitwise, comparison, equality, logical, pair, space list, comma list, access, apply, apply-to, conditionals, else, `;`, blank line), in size order, printed with minimal parentheses from the independent operator table (the print is re-read by the reference parser and must give the AST back), spaced layout, x 2 input values (all 7 for ASTs of at most 3 nodes) x 2 data implementations. \
             Phase control-flow-skeletons: every AST with at most 8 nodes (9 thorough) over the constants `$!` and `1`, `!!`, `??`, `?>`, `!>`, `|>`, `&&`, `||`, `+` and explicit parentheses (conditionals inside arms, defaults and operands of each other), x 2 input values x 2 implementations. Phase operators-on-value-pairs: every binary operator between every ordered pair of a pool of 50 values of all kinds (and every unary operator on each), read by the reference parser from the text. Phase random: larger ASTs from a proptest tape (depth <= 6; keyed pairs, lists, conditional chains with defaults, applied nested expressions, counter-bounded reapply loops, side-effect blocks, sequencing), spaced and tight layouts, x 3 of 7 input values x 2 implementations. \
             Oracle: read-back of the final current value must be structurally identical to the value a tree-walking reference evaluator assigns to the same text; a well-formed program must not be rejected, fail at run time or exceed 16x the reference's step count. \
             Programs whose meaning the reference leaves undefined (ill-formed shapes, recorded open findings such as else chains without default or list index past the end) are discarded and counted. \
             Non-trivial = judged program with >= 2 operator nodes using >= 2 construct kinds; distinct = distinct ASTs.",
            astgen::LEAVES.len(),
            astgen::UNARY.len(),
            astgen::BINARY.len()
        )
    }
    fn assumptions(&self) -> Vec<String> {
        vec![
            "the reference semantics of DESIGN.md §2 (model/refeval.rs), calibrated against the repository's scripts and runtime tests".into(),
            "expression values compare equal to any expression value (their table index is an implementation detail)".into(),
            "no host callbacks installed (C17 covers hosts)".into(),
        ]
    }
    fn phases(&self, tier: Tier) -> Vec<Phase> {
        let k = tier.pick(4, 5);
        vec![
            Phase::exhaustive("exhaustive-asts", astgen::count_up_to(k)).with_chunk(2048),
            Phase::random("random-asts", tier.pick(60_000, 1_500_000), 160).with_min_tape(24).with_chunk(512),
            Phase::exhaustive("control-flow-skeletons", astgen::CONTROL.count_up_to(tier.pick(8, 9))).with_chunk(2048),
            Phase::exhaustive("operators-on-value-pairs", valuepool::binary_program_count() + valuepool::unary_program_count()).with_chunk(1024),
            Phase::exhaustive("repetition", repetition_corpus().len() as u64).with_chunk(16),
        ]
    }
    fn run(&self, tier: Tier, phase: usize, input: &Input, ctx: &mut CaseCtx) {
        match (phase, input) {
            (0, Input::Index(i)) => {
                let ast = match astgen::unrank(*i, tier.pick(4, 5)) {
                    Some(a) => a,
                    None => return,
                };
                ctx.class("exhaustive");
                if ast.size() <= 3 {
                    // small programs: every input value (pair, scalar, text, plain and mixed lists too)
                    self.judge_ast(&ast, &[0, 1, 2, 3, 4, 5, 6, 7, 8, 9], &[Layout::Spaced], ctx);
                } else {
                    self.judge_ast(&ast, &[0, 1], &[Layout::Spaced], ctx);
                }
            }
            (1, Input::Tape(t)) => {
                let mut t = Tape::new(t);
                let a = t.choose(inputs().len());
                let b = t.choose(inputs().len());
                let ast = astgen::random_ast(&mut t, 6);
                ctx.class("random");
                self.judge_ast(&ast, &[0, a, b], &[Layout::Spaced, Layout::Tight], ctx);
            }
            (2, Input::Index(i)) => {
                if let Some(ast) = astgen::CONTROL.unrank(*i, tier.pick(8, 9)) {
                    ctx.class("control-flow-skeleton");
                    self.judge_ast(&ast, &[0, 2], &[Layout::Spaced], ctx);
                }
            }
            (3, Input::Index(i)) => {
                let src = if *i < valuepool::binary_program_count() { valuepool::binary_program(*i) } else { valuepool::unary_program(*i - valuepool::binary_program_count()) };
                ctx.class("operator-on-values");
                self.judge_text(&src, &[0, 1], ctx);
            }
            (4, Input::Index(i)) => {
                let progs = repetition_corpus();
                ctx.class("repetition");
                self.judge_text(&progs[*i as usize], &[0, 2], ctx);
                if *i as usize >= repetition_programs().len() {
                    ctx.class(if ctx.classes.contains(&"judged") { "size-sweep-judged" } else { "size-sweep-not-judged" });
                }
            }
            (_, Input::Text(s)) => {
                // a program given as text (hand-written regression, or the coverage-guided stage): read by the reference
                // parser and judged like a generated one; texts the reference does not define are counted, not judged
                ctx.class("text");
                self.judge_text(s, &[0, 1], ctx);
            }
            _ => {}
        }
    }
    fn render(&self, tier: Tier, phase: usize, input: &Input) -> String {
        let ast = match (phase, input) {
            (0, Input::Index(i)) => astgen::unrank(*i, tier.pick(4, 5)),
            (1, Input::Tape(t)) => {
                let mut t = Tape::new(t);
                t.choose(inputs().len());
                t.choose(inputs().len());
                Some(astgen::random_ast(&mut t, 6))
            }
            (2, Input::Index(i)) => astgen::CONTROL.unrank(*i, tier.pick(8, 9)),
            _ => None,
        };
        match ast.and_then(|a| if a.contains_def("Group") { astgen::printable_keep_groups(&a) } else { astgen::printable(&a) }) {
            Some((toks, _, _)) => format!("{:?}", render(&toks, Layout::Spaced)),
            None => format!("{:?}", input),
        }
    }
}
