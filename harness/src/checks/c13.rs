//! C13 — lexing is lossless, positions are exact, nothing is skipped.

use crate::engine::core::*;
use crate::engine::tape::{Tape, fnv};
use crate::model::reflex::*;
use garnish_lang_compiler::lex::{LexerToken, TokenType, lex};

pub struct C13Check;
pub static C13: C13Check = C13Check;

/// one representative per character class
pub const ALPHABET: &[char] = &[
    '5', 'a', '_', ':', '.', '+', '-', '~', '<', '>', '=', '!', '?', '|', '$', '(', ')', '{', '}', '[', ']', ',', ';', '#', '@', '&', '^', '*', '/', '%', '`', '"', '\'', '\\', ' ', '\t', '\n', '\r', 'é',
    '漢', '😀', '0',
];

fn tt_name(t: TokenType) -> String {
    format!("{:?}", t)
}

fn char_class(c: char) -> &'static str {
    match c {
        '\\' => "backslash",
        '\n' => "newline",
        '\r' => "cr",
        ' ' | '\t' => "blank",
        '"' | '\'' => "quote",
        '`' => "backtick",
        '@' => "at",
        c if c.is_numeric() => "digit",
        c if c.is_alphabetic() => "letter",
        '_' | ':' => "identifier-punct",
        c if is_dead_char(c) => "dead-char",
        _ => "operator-char",
    }
}

/// All checks on a successful lex of `input`. Returns failures as (signature, detail).
pub fn judge_ok(input: &str, tokens: &[LexerToken]) -> Vec<(String, String)> {
    let mut fails: Vec<(String, String)> = vec![];
    let has_cr = input.contains('\r') || input.contains('\x0c');

    // 1. round trip
    let mut concat = String::new();
    for t in tokens {
        concat.push_str(t.get_text());
    }
    if concat != input {
        // first divergence
        let a: Vec<char> = input.chars().collect();
        let b: Vec<char> = concat.chars().collect();
        let mut i = 0;
        while i < a.len() && i < b.len() && a[i] == b[i] {
            i += 1;
        }
        let (kind, c) = if i < a.len() && (i >= b.len() || b.len() < a.len()) { ("dropped", a[i]) } else if i < b.len() { ("invented", b[i]) } else { ("dropped", a[i.min(a.len() - 1)]) };
        fails.push((format!("roundtrip:{}:{}", kind, char_class(c)), format!("tokens concatenate to {:?}, input is {:?}", concat, input)));
        return fails; // later clauses assume the concatenation lines up
    }

    // 2. no empty token; 3. positions; 4. class validity + munch
    let mut offset = 0usize; // byte offset
    let mut line = 0usize;
    let mut col = 0usize;
    let mut prev: Option<TokenType> = None;
    let mut prev_text: &str = "";
    let mut position_reported = false;
    for t in tokens {
        let text = t.get_text();
        let ty = t.get_token_type();
        if text.is_empty() {
            fails.push((format!("empty-token:{}", tt_name(ty)), format!("empty {:?} token in {:?}", ty, input)));
            continue;
        }
        if !has_cr && !position_reported && (t.get_line() != line || t.get_column() != col) {
            // only the first discrepancy: later ones are consequences of the same miscount
            position_reported = true;
            let prev_nl = prev_text.contains('\n');
            fails.push((
                format!("position:after-{}{}", prev.map(tt_name).unwrap_or("start".into()), if prev_nl { "-containing-newline" } else { "" }),
                format!("token {:?} {:?} reported at ({}, {}), its first character is at ({}, {}) in {:?}", ty, text, t.get_line(), t.get_column(), line, col, input),
            ));
        }
        let ws_class = matches!(ty, TokenType::Whitespace | TokenType::Subexpression);
        let judge_class = !(ws_class && text.chars().any(|c| c != ' ' && c != '\t' && c != '\n'));
        if judge_class {
            if let Err(why) = class_valid(ty, text) {
                fails.push((format!("class:{}:{}", tt_name(ty), why), format!("token {:?} is not a valid {:?} ({}) in {:?}", text, ty, why, input)));
            }
        }
        let rest = &input[offset + text.len()..];
        if let Some(why) = could_extend(ty, text, rest) {
            // `.` followed by a digit is a float start only where a float may start; `_` + letters an identifier: those are
            // separate tokens of other classes and never reach here as operator tokens with a longer *operator* available.
            fails.push((format!("munch:{}:{}", tt_name(ty), why), format!("token {:?} {:?} could have been extended by the following {:?} in {:?}", ty, text, rest.chars().next(), input)));
        }
        // advance
        for c in text.chars() {
            if c == '\n' {
                line += 1;
                col = 0;
            } else {
                col += 1;
            }
        }
        offset += text.len();
        prev = Some(ty);
        prev_text = text;
    }
    fails
}

/// blank-line clause: widening a blank line with spaces/tabs keeps a Subexpression token there.
fn blank_line_variants(input: &str, tokens: &[LexerToken], fails: &mut Vec<(String, String)>, sub_evals: &mut u64) {
    if input.contains('\r') || input.contains('\x0c') {
        return;
    }
    let mut offset = 0usize;
    let sig_types = |toks: &[LexerToken]| -> Vec<TokenType> { toks.iter().map(|t| t.get_token_type()).filter(|t| *t != TokenType::Whitespace).collect() };
    let base = sig_types(tokens);
    for (ti, t) in tokens.iter().enumerate() {
        let text = t.get_text();
        if t.get_token_type() == TokenType::Subexpression && text.chars().all(|c| c == ' ' || c == '\t' || c == '\n') {
            // must be preceded by a non-whitespace token for "the line before it" to exist
            let first_nl = offset + text.find('\n').unwrap_or(0);
            let second_nl = first_nl + 1 + input[first_nl + 1..].find('\n').unwrap_or(0);
            let variants: [(&str, usize, &str); 6] = [
                ("trailing-space", first_nl, " "),
                ("trailing-tab", first_nl, "\t"),
                ("space-between", second_nl, " "),
                ("tab-between", second_nl, "\t"),
                ("tab-and-spaces-between", second_nl, "\t  "),
                ("trailing-spaces-and-between", first_nl, " \t"),
            ];
            for (name, at, ins) in variants {
                let mut v = String::with_capacity(input.len() + 4);
                v.push_str(&input[..at]);
                v.push_str(ins);
                v.push_str(&input[at..]);
                if name == "trailing-spaces-and-between" {
                    // also between the newlines
                    let p = second_nl + ins.len();
                    v.insert(p, ' ');
                }
                *sub_evals += 1;
                match guard("lex", || lex(&v)) {
                    Ok(Ok(toks2)) => {
                        if sig_types(&toks2) != base {
                            fails.push((
                                format!("blankline:{}:{}", name, if ti > 0 { tt_name(tokens[ti - 1].get_token_type()) } else { "start".into() }),
                                format!("{:?} lexes with a Subexpression token, {:?} (blank line widened with spaces/tabs) lexes to {:?}", input, v, toks2.iter().map(|t| t.get_token_type()).collect::<Vec<_>>()),
                            ));
                        }
                    }
                    Ok(Err(_)) => {
                        fails.push((format!("blankline:{}:rejected", name), format!("{:?} lexes, {:?} (blank line widened with spaces/tabs) is rejected", input, v)));
                    }
                    Err(p) => fails.push((format!("panic@{}", p.loc), format!("lex panicked on {:?}: {}", v, p.msg))),
                }
            }
        }
        offset += text.len();
    }
}

pub fn check_input(input: &str, ctx: &mut CaseCtx, with_blank_variants: bool) {
    ctx.render(|| format!("{:?}", input));
    let r = guard("lex", || lex(input));
    match r {
        Err(p) => {
            ctx.fail(format!("panic@{}", p.loc), format!("lex panicked on {:?}: {}", input, p.msg));
        }
        Ok(Err(_)) => {
            ctx.class("rejected");
        }
        Ok(Ok(tokens)) => {
            ctx.class("accepted");
            let mut classes: Vec<TokenType> = tokens.iter().map(|t| t.get_token_type()).collect();
            classes.dedup();
            let distinct_classes = {
                let mut c = classes.clone();
                c.sort_by_key(|t| *t as u32);
                c.dedup();
                c.len()
            };
            if tokens.len() >= 2 && distinct_classes >= 2 {
                ctx.nontrivial(fnv(input.as_bytes()));
            }
            let mut fails = judge_ok(input, &tokens);
            if with_blank_variants && fails.is_empty() {
                blank_line_variants(input, &tokens, &mut fails, &mut ctx.sub_evals);
            }
            // a dead character outside literals must have made lex fail: follows from round trip + class validity,
            // but name it explicitly when a dead char sits in a non-literal token
            for t in &tokens {
                if !matches!(t.get_token_type(), TokenType::CharList | TokenType::ByteList | TokenType::LineAnnotation) {
                    if let Some(c) = t.get_text().chars().find(|c| is_dead_char(*c)) {
                        fails.push((format!("dead-char-accepted:{}", tt_name(t.get_token_type())), format!("character {:?} cannot start or continue a token but was accepted inside {:?} {:?}", c, t.get_token_type(), t.get_text())));
                    }
                }
            }
            for (s, d) in fails {
                ctx.fail(s, d);
            }
        }
    }
}

fn index_to_string(mut index: u64, alphabet: &[char], max_len: u32) -> String {
    // size order: all strings of length 0, then 1, ...
    let k = alphabet.len() as u64;
    let mut len = 0u32;
    let mut block = 1u64;
    while len <= max_len {
        if index < block {
            break;
        }
        index -= block;
        block *= k;
        len += 1;
    }
    let mut chars = vec![' '; len as usize];
    for i in (0..len as usize).rev() {
        chars[i] = alphabet[(index % k) as usize];
        index /= k;
    }
    chars.into_iter().collect()
}

fn space_size(k: u64, max_len: u32) -> u64 {
    let mut total = 0u64;
    let mut block = 1u64;
    for _ in 0..=max_len {
        total += block;
        block *= k;
    }
    total
}

pub fn fragments() -> Vec<&'static str> {
    let mut v: Vec<&'static str> = OPERATORS.iter().map(|(s, _)| *s).collect();
    v.extend_from_slice(&[
        "5", "10", "3.5", ".5", "0x", "abc", "_x", ":sym", "::id", "x`", "`x", "`x`", "\"text\"", "\"\"", "\"\"\"a \"b\" c\"\"\"", "'bytes'", "''", "'''1 2'''", "@note", "@@ line\n", " ", "\t", "\n", "\n\n",
        " \n\n", "\n \n", "\r\n", "\\", "é", "漢", "😀", "\"é\"", "'😀'", "\"multi\nline\"", "5.5.5", "1..2", "a.b", "$", "_", ":", "\"", "'", "`", "@",
    ]);
    v
}

/// Characters chosen against the lexer's character tests rather than one per class: every non-ASCII white-space
/// character (and the zero-width ones), and for every ASCII punctuation character, digit and blank the characters of
/// other Unicode blocks that share its low byte (a narrowing `as u8`, a table indexed by the low byte or an ASCII-only
/// test applied to a wider class confuses exactly these), plus numeric characters that are not ASCII digits.
pub fn adversarial_chars() -> Vec<char> {
    let mut v: Vec<char> = vec![
        '\u{0b}', '\u{0c}', '\u{85}', '\u{a0}', '\u{1680}', '\u{2000}', '\u{2002}', '\u{2003}', '\u{2009}', '\u{200a}', '\u{200b}', '\u{2028}', '\u{2029}', '\u{202f}', '\u{205f}', '\u{3000}', '\u{feff}', '\u{301}', '٣', '²', 'Ⅷ', '½',
        '\u{7f}', '\u{1}', '\0', '\u{ff}', '\u{d7ff}', '\u{e000}', '\u{10ffff}',
    ];
    let ascii: Vec<u32> = (0x21u32..=0x2f).chain(0x3a..=0x40).chain(0x5b..=0x60).chain(0x7b..=0x7e).chain([0x30, 0x39, 0x20, 0x09, 0x0a, 0x0d]).collect();
    for base in [0x100u32, 0x400, 0x4e00, 0x1f600] {
        for c in &ascii {
            if let Some(ch) = char::from_u32(base + c) {
                v.push(ch);
            }
        }
    }
    v
}

pub const LONG_LENGTHS: &[usize] = &[254, 255, 256, 257, 65534, 65535, 65536, 65537, 70000];
pub const LONG_FILLERS: &[&str] = &["identifier", "text", "spaces", "line-annotation-then-lines", "lines", "operators"];

/// a token after `n` characters of one long token / white-space run / many short tokens, or after `n` lines
pub fn long_input(filler: &str, n: usize) -> String {
    match filler {
        "identifier" => format!("{} + b 5", "a".repeat(n)),
        "text" => format!("\"{}\" + b 5", "x".repeat(n)),
        "spaces" => format!("a{}+ b 5", " ".repeat(n)),
        "line-annotation-then-lines" => format!("@@{}\na + b", "c".repeat(n)),
        "lines" => format!("a{}+ b 5", "\n".repeat(n)),
        _ => format!("a {}b 5", "+ 1 ".repeat(n / 4)),
    }
}

pub const ADVERSARIAL_CONTEXT: &[&str] = &["", "5", "a", "+", " ", "\n", "(", ":a", ".", "<", "@n", "\"", "x`", "\"x", "'x", "x\"", "@@c"];

fn random_input(t: &mut Tape) -> String {
    let frags = fragments();
    let n = 1 + t.choose(40);
    let mut s = String::new();
    for _ in 0..n {
        match t.choose(11) {
            0..=5 => s.push_str(frags[t.choose(frags.len())]),
            6..=7 => s.push(ALPHABET[t.choose(ALPHABET.len())]),
            8 => s.push(' '),
            9 if t.flag() => {
                let a = adversarial_chars();
                s.push(a[t.choose(a.len())]);
            }
            _ => {
                // arbitrary scalar value
                let c = char::from_u32(t.u32() % 0x11_0000).unwrap_or('x');
                s.push(c);
            }
        }
    }
    s
}

impl Check for C13Check {
    fn id(&self) -> &'static str {
        "C13"
    }
    fn rule(&self) -> String {
        format!(
            "Phase strings: every string of length 0..L over a {}-character alphabet with one representative per character class (digit, letter, each operator character, backtick, both quotes, backslash, space, tab, LF, CR, 2-/3-/4-byte characters), \
             in size order (L=4 quick, 5 thorough); pairs: every ordered pair of token spellings (all operators plus literal/identifier/annotation/whitespace fragments) adjacent and separated by a space or newline; random: strings of up to 40 fragments from a proptest tape; long-lines: tokens after 254..70000 characters of one long identifier / text / white-space run / operator sequence, and after that many line breaks (columns and lines around the limits of 8- and 16-bit counters); unicode-adversarial: every non-ASCII white-space / zero-width / non-ASCII numeric character and every character of four other Unicode blocks that shares its low byte with an ASCII punctuation character, digit or blank, between every ordered pair of 17 contexts (incl. inside a text / byte-list literal after its first character; the NUL character is among them). \
             Oracle on Ok: concatenation of token texts equals the input, no empty token, (line, column) equal an independent count (skipped when the input contains CR/FF), every token is a valid member of its class by the reference token table, \
             no operator/identifier/number/annotation/whitespace token could have been extended by the next characters, no character that cannot start or continue a token sits in a non-literal token, and widening any blank line with spaces/tabs keeps the same non-whitespace token classes. \
             Err results are always accepted. Non-trivial = lexes to >= 2 tokens of >= 2 classes; distinct = distinct input strings.",
            ALPHABET.len()
        )
    }
    fn assumptions(&self) -> Vec<String> {
        vec![
            "the reference token table in model/reflex.rs is a faithful copy of the language's operator spellings and literal forms".into(),
            "carriage return and form feed are not judged for positions or whitespace classification (the statement leaves CR unsettled)".into(),
        ]
    }
    fn phases(&self, tier: Tier) -> Vec<Phase> {
        let k = ALPHABET.len() as u64;
        let l = tier.pick(4, 5);
        let nf = fragments().len() as u64;
        vec![
            Phase::exhaustive("strings", space_size(k, l)).with_chunk(16384),
            Phase::exhaustive("pairs", nf * nf * 3).with_chunk(1024),
            Phase::random("random", tier.pick(300_000, 6_000_000), 160).with_min_tape(8).with_chunk(2048),
            Phase::exhaustive("long-lines", (LONG_LENGTHS.len() * LONG_FILLERS.len()) as u64).with_chunk(2).with_deadline_ms(20_000),
            Phase::exhaustive("unicode-adversarial", (adversarial_chars().len() * ADVERSARIAL_CONTEXT.len() * ADVERSARIAL_CONTEXT.len()) as u64).with_chunk(1024),
        ]
    }
    fn run(&self, tier: Tier, phase: usize, input: &Input, ctx: &mut CaseCtx) {
        match (phase, input) {
            (0, Input::Index(i)) => {
                let s = index_to_string(*i, ALPHABET, tier.pick(4, 5));
                ctx.class("exhaustive-string");
                check_input(&s, ctx, true);
            }
            (1, Input::Index(i)) => {
                let f = fragments();
                let n = f.len() as u64;
                let sep = ["", " ", "\n"][(i % 3) as usize];
                let r = i / 3;
                let s = format!("{}{}{}", f[(r / n) as usize], sep, f[(r % n) as usize]);
                ctx.class("fragment-pair");
                check_input(&s, ctx, true);
            }
            (2, Input::Tape(t)) => {
                let mut t = Tape::new(t);
                let s = random_input(&mut t);
                ctx.class("random");
                check_input(&s, ctx, true);
            }
            (3, Input::Index(i)) => {
                // tokens far to the right and far down: columns and lines around the limits of 8- and 16-bit counters
                let n = LONG_LENGTHS[*i as usize / LONG_FILLERS.len()];
                let s = long_input(LONG_FILLERS[*i as usize % LONG_FILLERS.len()], n);
                ctx.class("long-line");
                check_input(&s, ctx, false);
            }
            (4, Input::Index(i)) => {
                let a = adversarial_chars();
                let n = ADVERSARIAL_CONTEXT.len() as u64;
                let c = a[(*i / (n * n)) as usize];
                let (pre, post) = (ADVERSARIAL_CONTEXT[((*i / n) % n) as usize], ADVERSARIAL_CONTEXT[(*i % n) as usize]);
                ctx.class("unicode-adversarial");
                check_input(&format!("{}{}{}", pre, c, post), ctx, true);
            }
            (_, Input::Text(s)) => check_input(s, ctx, true),
            _ => {}
        }
    }
    fn render(&self, tier: Tier, phase: usize, input: &Input) -> String {
        match (phase, input) {
            (0, Input::Index(i)) => format!("{:?}", index_to_string(*i, ALPHABET, tier.pick(4, 5))),
            (2, Input::Tape(t)) => format!("{:?}", random_input(&mut Tape::new(t))),
            _ => format!("{:?}", input),
        }
    }
    fn hang_signature(&self, stage: &str, kind: &str) -> Option<String> {
        Some(format!("{}@{}", kind, stage))
    }
}
