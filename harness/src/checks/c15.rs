//! C15 — stored values read back unchanged, however the store grows.

use crate::engine::core::*;
use crate::engine::tape::{Tape, fnv};
use crate::model::data::*;
use crate::model::value::{V, pair, readback, same, text};
use garnish_lang_simple_data::{BasicGarnishData, DataError, NoOpCompanion, ReallocationStrategy, SimpleNumber, StorageSettings, symbol_value};
use garnish_lang_traits::{GarnishData, Instruction};

pub struct C15Check;
pub static C15: C15Check = C15Check;

#[derive(Clone, Copy, Debug, PartialEq)]
pub enum Op {
    AddNumber,
    AddCharList,
    AddByteList,
    AddSymbol,
    AddPair,
    AddList,
    PushInstruction,
    PushJump,
    PushRegister,
    PopRegister,
    PushValue,
    PopValue,
    PushFrame,
    PopFrame,
}
pub const OPS: [Op; 14] = [
    Op::AddNumber, Op::AddCharList, Op::AddByteList, Op::AddSymbol, Op::AddPair, Op::AddList, Op::PushInstruction, Op::PushJump, Op::PushRegister, Op::PopRegister, Op::PushValue, Op::PopValue, Op::PushFrame, Op::PopFrame,
];

/// (initial size, growth policy) applied to every table
/// constants of every interned kind, with near-misses: equal numbers of different kind, the same small number as a
/// number / char / byte / symbol / expression / external, and texts and byte lists that share a long prefix and
/// differ only in their last (or first) item, at lengths around powers of two
pub fn constant_pool() -> Vec<V> {
    use garnish_lang_traits::GarnishDataType as T;
    let mut p: Vec<V> = vec![
        V::Int(0), V::Int(1), V::Int(-1), V::Int(3), V::Int(97), V::Int(i32::MAX), V::Int(i32::MIN),
        V::Float(0.0), V::Float(3.0), V::Float(2.5), V::Float(97.0), V::Float(1e10),
        V::Char('a'), V::Char('b'), V::Char('é'), V::Char('i'), V::Char('ï'), V::Char('o'), V::Char('\u{161}'), V::Char('\u{1F661}'), V::Byte(0), V::Byte(97), V::Byte(225),
        V::Sym(0), V::Sym(97), V::Sym(u64::MAX), V::Expr(0), V::Expr(97), V::External(0), V::External(97),
        V::Type(T::Unit), V::Type(T::Number),
        text(""), text("a"), text("b"), text("ab"), V::Bytes(vec![]), V::Bytes(vec![97]), V::Bytes(vec![98]), V::Bytes(vec![97, 98]),
    ];
    for l in [7usize, 8, 9, 31, 32, 33, 63, 64, 65, 127, 128, 129, 255, 256, 257] {
        for last in ['a', 'b'] {
            let mut t: Vec<char> = vec!['x'; l];
            t.push(last);
            p.push(V::Text(t));
            let mut b: Vec<u8> = vec![120; l];
            b.push(last as u8);
            p.push(V::Bytes(b));
        }
    }
    // same length, same ends, different middle
    for l in [66usize, 100, 300] {
        for mid in ['a', 'b'] {
            let mut t: Vec<char> = vec!['x'; l];
            t[l / 2] = mid;
            p.push(V::Text(t));
            let mut b: Vec<u8> = vec![120; l];
            b[l / 2] = mid as u8;
            p.push(V::Bytes(b));
        }
    }
    for l in [64usize, 256] {
        for first in ['a', 'b'] {
            let mut t: Vec<char> = vec![first];
            t.extend(vec!['x'; l]);
            p.push(V::Text(t));
        }
    }
    p
}

pub const LARGE_KINDS: &[&str] = &["integer", "float", "text", "bytes", "symbol", "mixed"];
pub const LARGE_SIZES: &[usize] = &[100, 1000, 1500, 5000, 20000, 70000];
pub const LARGE_SIZES_QUICK: &[usize] = &[100, 1000, 1500, 5000];

/// the k-th distinct constant of a kind
pub fn large_value(kind: &str, k: usize) -> V {
    let kind = if kind == "mixed" { ["integer", "float", "text", "bytes", "symbol"][k % 5] } else { kind };
    match kind {
        "integer" => V::Int(k as i32 - 50),
        "float" => V::Float(k as f64 + 0.5),
        "text" => V::Text(format!("t{}é", k).chars().collect()),
        "bytes" => V::Bytes(format!("b{}", k).into_bytes()),
        _ => V::Sym(1_000_000 + k as u64 * 7919),
    }
}

pub fn configs() -> Vec<(usize, ReallocationStrategy, &'static str)> {
    vec![
        (0, ReallocationStrategy::FixedSize(1), "initial 0, +1"),
        (1, ReallocationStrategy::Multiplicative(2), "initial 1, x2"),
        (0, ReallocationStrategy::FixedSize(2), "initial 0, +2"),
        (1, ReallocationStrategy::FixedSize(1), "initial 1, +1"),
        (1, ReallocationStrategy::FixedSize(2), "initial 1, +2"),
        (2, ReallocationStrategy::FixedSize(1), "initial 2, +1"),
        (2, ReallocationStrategy::FixedSize(2), "initial 2, +2"),
        (2, ReallocationStrategy::Multiplicative(2), "initial 2, x2"),
    ]
}

fn basic_with(initial: usize, strat: ReallocationStrategy) -> BasicGarnishData<(), NoOpCompanion> {
    let s = || StorageSettings::new(initial, usize::MAX, strat.clone());
    BasicGarnishData::new_with_settings(s(), s(), s(), s(), s(), s(), NoOpCompanion::new()).expect("new_with_settings")
}

/// values for the object interface: the constants, every value kind, and lists / pairs that hold equal-looking items
pub fn object_pool() -> Vec<V> {
    let mut p = constant_pool();
    p.extend(crate::checks::c10::truth_values());
    p.extend(crate::checks::c11::small_pool());
    let one = || V::Int(1);
    let onef = || V::Float(1.0);
    p.push(V::List(vec![one(), onef()]));
    p.push(V::List(vec![onef(), one(), onef()]));
    p.push(V::List(vec![V::Float(0.0), V::Float(-0.0), V::Int(0)]));
    p.push(V::List(vec![pair(V::Sym(7), one()), pair(V::Sym(7), onef())]));
    p.push(pair(one(), onef()));
    p.push(V::Concat(Box::new(one()), Box::new(onef())));
    p.push(V::List(vec![text("é"), text("é"), text("e")]));
    p.push(V::List(vec![V::List(vec![one()]), V::List(vec![onef()])]));
    p.push(text("héllo wörld 漢字"));
    p.push(V::List((0..40).map(|k| if k % 2 == 0 { V::Int(k) } else { V::Float(k as f64) }).collect()));
    p
}

/// the same value as a BasicObject (None for kinds the harness's value model cannot express there)
pub fn to_basic_object(v: &V) -> Option<garnish_lang_simple_data::BasicObject> {
    use crate::model::value::SymPart;
    use garnish_lang_simple_data::BasicObject as O;
    use garnish_lang_traits::SymbolListPart;
    let b = |x: &V| to_basic_object(x).map(Box::new);
    Some(match v {
        V::Unit => O::Unit,
        V::True => O::True,
        V::False => O::False,
        V::Int(i) => O::Number(SimpleNumber::Integer(*i)),
        V::Float(f) => O::Number(SimpleNumber::Float(*f)),
        V::Char(c) => O::Char(*c),
        V::Byte(x) => O::Byte(*x),
        V::Sym(s) => O::Symbol(*s),
        V::SymList(parts) => O::SymbolList(parts.iter().map(|p| match p { SymPart::Sym(s) => SymbolListPart::Symbol(*s), SymPart::Num(n) => SymbolListPart::Number(SimpleNumber::Integer(*n)) }).collect()),
        V::Text(t) => O::CharList(t.iter().collect()),
        V::Bytes(x) => O::ByteList(x.clone()),
        V::Pair(l, r) => O::Pair(b(l)?, b(r)?),
        V::Range(l, r) => O::Range(b(l)?, b(r)?),
        V::Slice(l, r) => O::Slice(b(l)?, b(r)?),
        V::Partial(l, r) => O::Partial(b(l)?, b(r)?),
        V::Concat(l, r) => O::Concatenation(b(l)?, b(r)?),
        V::List(items) => O::List(items.iter().map(|x| to_basic_object(x).map(Box::new)).collect::<Option<Vec<_>>>()?),
        V::Expr(n) => O::Expression(*n),
        V::External(n) => O::External(*n),
        V::Type(t) => O::Type(*t),
        V::Unreadable(_) => return None,
    })
}

/// operations that make a new value out of values the store already holds (phase derived-values)
#[derive(Clone, Copy, Debug, PartialEq)]
pub enum DOp {
    Symbol,
    Number,
    Text,
    /// merge_to_symbol_list(newest symbol or symbol list, newest symbol)
    MergeNewestNewest,
    /// merge_to_symbol_list(oldest symbol or symbol list, newest symbol)
    MergeOldestNewest,
    /// merge_to_symbol_list(newest symbol or symbol list, oldest symbol)
    MergeNewestOldest,
    /// merge_to_symbol_list(oldest symbol list, newest symbol list) — two lists, usually of different lengths
    MergeListList,
    /// add_concatenation(newest value, oldest value)
    Concatenation,
    /// add_pair(oldest value, newest value)
    Pair,
    /// add_range over the two newest numbers, then add_slice(newest text, that range)
    Slice,
    /// add_symbol_from(newest number): the symbol named by the number's text form
    SymbolFromNumber,
    /// add_char_list_from(newest number): the number's text form
    TextFromNumber,
    /// eight registers pushed and popped again, then a list of the oldest value and the newest pair made with
    /// start_list / add_to_list / end_list and looked up by the pair's key and by a key it does not hold
    RegistersThenList,
}
pub const DOPS: [DOp; 13] = [
    DOp::Symbol, DOp::Number, DOp::Text, DOp::MergeNewestNewest, DOp::MergeOldestNewest, DOp::MergeNewestOldest, DOp::MergeListList, DOp::Concatenation, DOp::Pair, DOp::Slice, DOp::SymbolFromNumber, DOp::TextFromNumber,
    DOp::RegistersThenList,
];

fn derived_count(max: usize) -> u64 {
    (1..=max).map(|l| (DOPS.len() as u64).pow(l as u32)).sum()
}

fn index_to_derived(mut idx: u64, max: usize) -> Vec<DOp> {
    for l in 1..=max {
        let c = (DOPS.len() as u64).pow(l as u32);
        if idx < c {
            let mut out = vec![DOp::Symbol; l];
            for p in (0..l).rev() {
                out[p] = DOPS[(idx % DOPS.len() as u64) as usize];
                idx /= DOPS.len() as u64;
            }
            return out;
        }
        idx -= c;
    }
    vec![]
}

/// run a history of derived-value operations; after each one every address ever returned must read back as the model says
fn run_derived<D: GD>(d: &mut D, ops: &[DOp], label: &str, ctx: &mut CaseCtx) -> bool {
    use crate::model::value::SymPart;
    let mut values: Vec<(usize, V)> = vec![];
    let mut derived = false;
    for (k, op) in ops.iter().enumerate() {
        let symish = |v: &V| matches!(v, V::Sym(_) | V::SymList(_));
        let parts = |v: &V| -> Vec<SymPart> {
            match v {
                V::Sym(s) => vec![SymPart::Sym(*s)],
                V::SymList(p) => p.clone(),
                _ => vec![],
            }
        };
        let newest = |values: &[(usize, V)], f: &dyn Fn(&V) -> bool| values.iter().rev().find(|(_, v)| f(v)).cloned();
        let oldest = |values: &[(usize, V)], f: &dyn Fn(&V) -> bool| values.iter().find(|(_, v)| f(v)).cloned();
        let is_sym = |v: &V| matches!(v, V::Sym(_));
        let n = k as i32;
        let r: Result<Option<(usize, V)>, String> = (|| {
            let e = |x: DataError| x.to_string();
            Ok(match op {
                DOp::Symbol => {
                    let s = 500_000 + n as u64;
                    Some((d.add_symbol(s).map_err(e)?, V::Sym(s)))
                }
                DOp::Number => Some((d.add_number(SimpleNumber::Integer(n)).map_err(e)?, V::Int(n))),
                DOp::Text => {
                    let t = format!("xé{}y", n);
                    Some((d.parse_add_char_list(&format!("\"{}\"", t)).map_err(e)?, text(&t)))
                }
                DOp::MergeNewestNewest | DOp::MergeOldestNewest | DOp::MergeNewestOldest => {
                    let left = if *op == DOp::MergeOldestNewest { oldest(&values, &symish) } else { newest(&values, &symish) };
                    let right = if *op == DOp::MergeNewestOldest { oldest(&values, &is_sym) } else { newest(&values, &is_sym) };
                    match (left, right) {
                        (Some((la, lv)), Some((ra, rv))) => {
                            let mut p = parts(&lv);
                            p.extend(parts(&rv));
                            Some((d.merge_to_symbol_list(la, ra).map_err(e)?, V::SymList(p)))
                        }
                        _ => None,
                    }
                }
                DOp::MergeListList => {
                    let is_list = |v: &V| matches!(v, V::SymList(_));
                    match (oldest(&values, &is_list), newest(&values, &is_list)) {
                        (Some((la, lv)), Some((ra, rv))) => {
                            let mut p = parts(&lv);
                            p.extend(parts(&rv));
                            Some((d.merge_to_symbol_list(la, ra).map_err(e)?, V::SymList(p)))
                        }
                        _ => None,
                    }
                }
                DOp::Concatenation => match (values.last().cloned(), values.first().cloned()) {
                    (Some((la, lv)), Some((ra, rv))) => Some((d.add_concatenation(la, ra).map_err(e)?, V::Concat(Box::new(lv), Box::new(rv)))),
                    _ => None,
                },
                DOp::Pair => match (values.first().cloned(), values.last().cloned()) {
                    (Some((la, lv)), Some((ra, rv))) => Some((d.add_pair((la, ra)).map_err(e)?, pair(lv, rv))),
                    _ => None,
                },
                DOp::SymbolFromNumber => match newest(&values, &|v: &V| matches!(v, V::Int(_))) {
                    Some((na, V::Int(i))) => {
                        let a = d.add_symbol_from(na).map_err(e)?;
                        // the name is the number's text form; which symbol value BasicGarnishData derives from a name is
                        // not judged here, only that it is a symbol and stays that symbol
                        let want = match readback(d, a) {
                            V::Sym(s) if label != "Simple" || s == garnish_lang_simple_data::symbol_value(&i.to_string()) => V::Sym(s),
                            other => return Err(format!("add_symbol_from(number {}) reads back as {}", i, other)),
                        };
                        Some((a, want))
                    }
                    _ => None,
                },
                DOp::TextFromNumber => match newest(&values, &|v: &V| matches!(v, V::Int(_))) {
                    Some((na, V::Int(i))) => Some((d.add_char_list_from(na).map_err(e)?, text(&i.to_string()))),
                    _ => None,
                },
                DOp::RegistersThenList => {
                    if values.is_empty() {
                        None
                    } else {
                        for i in 0..8 {
                            d.push_register(values[i % values.len()].0).map_err(e)?;
                        }
                        for i in (0..8).rev() {
                            match d.pop_register().map_err(e)? {
                                Some(a) if a == values[i % values.len()].0 => {}
                                other => return Err(format!("pop_register gave {:?}, expected {}", other, values[i % values.len()].0)),
                            }
                        }
                        let mut items = vec![values[0].clone()];
                        if let Some(p) = newest(&values, &|v: &V| matches!(v, V::Pair(l, _) if matches!(**l, V::Sym(_)))) {
                            items.push(p);
                        }
                        let mut l = d.start_list(items.len()).map_err(e)?;
                        for (a, _) in &items {
                            l = d.add_to_list(l, *a).map_err(e)?;
                        }
                        let l = d.end_list(l).map_err(e)?;
                        for (_, v) in &items {
                            if let V::Pair(k, want) = v {
                                if let V::Sym(s) = **k {
                                    match d.get_list_item_with_symbol(l, s) {
                                        Ok(Some(a)) if same(&readback(d, a), want) => {}
                                        other => return Err(format!("the new list's key {} looks up as {:?}, expected {}", s, other.map(|o| o.map(|a| readback(d, a).to_string())).map_err(|x| x.to_string()), want)),
                                    }
                                }
                            }
                        }
                        match d.get_list_item_with_symbol(l, 987_654_321) {
                            Ok(None) => {}
                            other => return Err(format!("a key the new list does not hold looks up as {:?}, expected no item", other.map_err(|x| x.to_string()))),
                        }
                        Some((l, V::List(items.into_iter().map(|(_, v)| v).collect())))
                    }
                }
                DOp::Slice => {
                    let is_num = |v: &V| matches!(v, V::Int(_));
                    let is_text = |v: &V| matches!(v, V::Text(_));
                    match (newest(&values, &is_num), oldest(&values, &is_num), newest(&values, &is_text)) {
                        (Some((ea, ev)), Some((sa, sv)), Some((ta, tv))) => {
                            let ra = d.add_range(sa, ea).map_err(e)?;
                            let range = V::Range(Box::new(sv), Box::new(ev));
                            values.push((ra, range.clone()));
                            Some((d.add_slice(ta, ra).map_err(e)?, V::Slice(Box::new(tv), Box::new(range))))
                        }
                        _ => None,
                    }
                }
            })
        })();
        match r {
            Err(e) => {
                ctx.fail(format!("operation-failed:{:?}", op), format!("{} step {} {:?}: {}", label, k, op, e));
                return derived;
            }
            Ok(None) => {}
            Ok(Some((a, v))) => {
                if !matches!(op, DOp::Symbol | DOp::Number | DOp::Text) {
                    derived = true;
                }
                values.push((a, v));
            }
        }
        for (a, v) in &values {
            let got = readback(d, *a);
            if !same(&got, v) {
                ctx.fail(
                    format!("value-changed:{}:after-{:?}", v.type_name(), op),
                    format!("{}: after step {} ({:?} of {:?}) address {} held {} and now reads back as {}", label, k, op, ops, a, v, got),
                );
                return derived;
            }
        }
    }
    derived
}

/// independent growable tables
#[derive(Default)]
struct Model {
    values: Vec<(usize, V)>,
    instructions: Vec<(Instruction, Option<usize>)>,
    jumps: Vec<usize>,
    registers: Vec<usize>,
    value_stack: Vec<usize>,
    /// (return address, register depth at push)
    frames: Vec<(usize, usize)>,
    symbols: Vec<(u64, String)>,
    counter: i32,
}

struct Step {
    fail: Option<(String, String)>,
}

fn apply<D: GD>(d: &mut D, m: &mut Model, op: Op, pick: usize, frames_in_registers: bool, base: (usize, usize)) -> Step {
    let err = |what: &str, e: String| Step { fail: Some((format!("operation-failed:{}", what), e)) };
    m.counter += 1;
    let n = m.counter;
    let earlier = |m: &Model, k: usize| -> Option<usize> { if m.values.is_empty() { None } else { Some(m.values[(pick + k) % m.values.len()].0) } };
    let earlier_v = |m: &Model, a: usize| -> V { m.values.iter().rev().find(|(x, _)| *x == a).map(|(_, v)| v.clone()).unwrap_or(V::Unit) };
    match op {
        Op::AddNumber => match d.add_number(SimpleNumber::Integer(1000 + n)) {
            Ok(a) => m.values.push((a, V::Int(1000 + n))),
            Err(e) => return err("add_number", e.to_string()),
        },
        Op::AddCharList => {
            let s = format!("s{}é", n);
            match d.parse_add_char_list(&format!("\"{}\"", s)) {
                Ok(a) => m.values.push((a, text(&s))),
                Err(e) => return err("parse_add_char_list", e.to_string()),
            }
        }
        Op::AddByteList => match d.parse_add_byte_list(&format!("'''{} 7 255'''", n % 256)) {
            Ok(a) => m.values.push((a, V::Bytes(vec![(n % 256) as u8, 7, 255]))),
            Err(e) => return err("parse_add_byte_list", e.to_string()),
        },
        Op::AddSymbol => {
            let name = format!("sym{}", n);
            match d.parse_add_symbol(&name) {
                Ok(a) => {
                    m.values.push((a, V::Sym(symbol_value(&name))));
                    m.symbols.push((symbol_value(&name), name));
                }
                Err(e) => return err("parse_add_symbol", e.to_string()),
            }
        }
        Op::AddPair => {
            let (l, r) = match (earlier(m, 0), earlier(m, 1)) {
                (Some(l), Some(r)) => (l, r),
                _ => return Step { fail: None },
            };
            match d.add_pair((l, r)) {
                Ok(a) => {
                    let v = pair(earlier_v(m, l), earlier_v(m, r));
                    m.values.push((a, v));
                }
                Err(e) => return err("add_pair", e.to_string()),
            }
        }
        Op::AddList => {
            let k = pick % 4;
            let items: Vec<usize> = (0..k).filter_map(|i| earlier(m, i * 3)).collect();
            let r = (|| -> Result<usize, String> {
                let mut l = d.start_list(items.len()).map_err(|e| e.to_string())?;
                for a in &items {
                    l = d.add_to_list(l, *a).map_err(|e| e.to_string())?;
                }
                d.end_list(l).map_err(|e| e.to_string())
            })();
            match r {
                Ok(a) => {
                    let v = V::List(items.iter().map(|a| earlier_v(m, *a)).collect());
                    m.values.push((a, v));
                }
                Err(e) => return err("list-construction", e),
            }
        }
        Op::PushInstruction => {
            let ins = [Instruction::Put, Instruction::Add, Instruction::JumpTo, Instruction::EndExpression][pick % 4];
            let arg = if pick % 3 == 0 { None } else { Some(n as usize) };
            match d.push_instruction(ins, arg) {
                Ok(_) => m.instructions.push((ins, arg)),
                Err(e) => return err("push_instruction", e.to_string()),
            }
        }
        Op::PushJump => {
            match d.push_to_jump_table(n as usize) {
                Ok(()) => m.jumps.push(n as usize),
                Err(e) => return err("push_to_jump_table", e.to_string()),
            }
            // patch an earlier entry through the mutable accessor, as the builder does
            if pick % 2 == 1 && !m.jumps.is_empty() {
                let j = pick % m.jumps.len();
                match d.get_from_jump_table_mut(base.1 + j) {
                    Some(slot) => {
                        *slot = 5000 + n as usize;
                        m.jumps[j] = 5000 + n as usize;
                    }
                    None => return err("get_from_jump_table_mut", format!("entry {} of {} not accessible", j, m.jumps.len())),
                }
            }
        }
        Op::PushRegister => {
            let a = match earlier(m, 0) {
                Some(a) => a,
                None => return Step { fail: None },
            };
            match d.push_register(a) {
                Ok(()) => m.registers.push(a),
                Err(e) => return err("push_register", e.to_string()),
            }
        }
        Op::PopRegister => {
            let floor = m.frames.last().map(|f| f.1).unwrap_or(0);
            if m.registers.len() <= floor {
                return Step { fail: None }; // precondition: never pop below the innermost frame's base
            }
            let want = m.registers.pop().unwrap();
            match d.pop_register() {
                Ok(Some(a)) if a == want => {}
                other => return Step { fail: Some(("pop_register-wrong".into(), format!("pop_register gave {:?}, expected {}", other.map_err(|e| e.to_string()), want))) },
            }
        }
        Op::PushValue => {
            let a = match earlier(m, 1) {
                Some(a) => a,
                None => return Step { fail: None },
            };
            match d.push_value_stack(a) {
                Ok(()) => m.value_stack.push(a),
                Err(e) => return err("push_value_stack", e.to_string()),
            }
        }
        Op::PopValue => {
            if m.value_stack.is_empty() {
                return Step { fail: None };
            }
            let want = m.value_stack.pop().unwrap();
            match d.pop_value_stack() {
                Some(a) if a == want => {}
                other => return Step { fail: Some(("pop_value_stack-wrong".into(), format!("pop_value_stack gave {:?}, expected {}", other, want))) },
            }
        }
        Op::PushFrame => match d.push_frame(7000 + n as usize) {
            Ok(()) => m.frames.push((7000 + n as usize, m.registers.len())),
            Err(e) => return err("push_frame", e.to_string()),
        },
        Op::PopFrame => {
            if m.frames.is_empty() {
                return Step { fail: None };
            }
            let (ret, depth) = m.frames.pop().unwrap();
            m.registers.truncate(depth);
            match d.pop_frame() {
                Ok(Some(r)) if r == ret => {}
                other => return Step { fail: Some(("pop_frame-wrong".into(), format!("pop_frame gave {:?}, expected {}", other.map_err(|e| e.to_string()), ret))) },
            }
        }
    }
    let _ = frames_in_registers;
    Step { fail: None }
}

/// after every operation: every address ever returned and every table entry reads back as in the model
fn verify<D: GD>(d: &D, m: &Model, frames_in_registers: bool, base: (usize, usize), sym_name: &dyn Fn(&D, u64) -> Option<String>) -> Option<(String, String)> {
    for (a, v) in &m.values {
        let got = readback(d, *a);
        if !same(&got, v) {
            return Some((format!("value-changed:{}", v.type_name()), format!("address {} held {} and now reads back as {}", a, v, got)));
        }
    }
    if d.get_instruction_len() != base.0 + m.instructions.len() {
        return Some(("instruction-count".into(), format!("{} instructions, model has {}", d.get_instruction_len() - base.0, m.instructions.len())));
    }
    for (i, ins) in m.instructions.iter().enumerate() {
        if d.get_instruction(base.0 + i) != Some(*ins) {
            return Some(("instruction-changed".into(), format!("instruction {} reads {:?}, was pushed as {:?}", i, d.get_instruction(base.0 + i), ins)));
        }
    }
    if d.get_jump_table_len() != base.1 + m.jumps.len() {
        return Some(("jump-count".into(), format!("{} jump entries, model has {}", d.get_jump_table_len() - base.1, m.jumps.len())));
    }
    for (j, t) in m.jumps.iter().enumerate() {
        if d.get_from_jump_table(base.1 + j) != Some(*t) {
            return Some(("jump-entry-changed".into(), format!("jump entry {} reads {:?}, model has {}", j, d.get_from_jump_table(base.1 + j), t)));
        }
    }
    // registers: logical order; SimpleGarnishData interleaves frame markers
    let expected_len = m.registers.len() + if frames_in_registers { m.frames.len() } else { 0 };
    if d.get_register_len() != expected_len {
        return Some(("register-count".into(), format!("{} registers, model has {} (+{} frame markers)", d.get_register_len(), m.registers.len(), if frames_in_registers { m.frames.len() } else { 0 })));
    }
    let mut phys = 0usize;
    let mut next_frame = 0usize;
    for (i, a) in m.registers.iter().enumerate() {
        if frames_in_registers {
            while next_frame < m.frames.len() && m.frames[next_frame].1 <= i {
                phys += 1;
                next_frame += 1;
            }
        }
        if d.get_register(phys) != Some(*a) {
            return Some(("register-changed".into(), format!("register {} reads {:?}, model has {}", i, d.get_register(phys), a)));
        }
        phys += 1;
    }
    if d.get_current_value() != m.value_stack.last().copied() {
        return Some(("current-value-changed".into(), format!("current value {:?}, model has {:?}", d.get_current_value(), m.value_stack.last())));
    }
    for (s, name) in &m.symbols {
        if let Some(got) = sym_name(d, *s) {
            if &got != name {
                return Some(("symbol-name-changed".into(), format!("symbol {:x} is named {:?}, was added as {:?}", s, got, name)));
            }
        }
    }
    None
}

fn run_history<D: GD>(d: &mut D, ops: &[(Op, usize)], frames_in_registers: bool, label: &str, ctx: &mut CaseCtx, sym_name: &dyn Fn(&D, u64) -> Option<String>) -> [bool; 4] {
    let mut m = Model::default();
    let base = (d.get_instruction_len(), d.get_jump_table_len());
    let mut grown = [false; 4];
    for (k, (op, pick)) in ops.iter().enumerate() {
        let r = guard("store", || apply(d, &mut m, *op, *pick, frames_in_registers, base));
        let step = match r {
            Ok(s) => s,
            Err(p) => {
                ctx.fail(format!("store-panic@{}", p.loc), format!("{} step {} {:?}: {}", label, k, op, p.msg));
                return grown;
            }
        };
        if let Some((sig, detail)) = step.fail {
            ctx.fail(format!("{}:{:?}", sig, op), format!("{} step {} of {:?}: {}", label, k, ops.iter().map(|o| o.0).collect::<Vec<_>>(), detail));
            return grown;
        }
        match op {
            Op::PushInstruction => grown[0] = true,
            Op::PushJump => grown[1] = true,
            Op::AddSymbol => grown[2] = true,
            _ => grown[3] = true,
        }
        match guard("store", || verify(d, &m, frames_in_registers, base, sym_name)) {
            Ok(None) => {}
            Ok(Some((sig, detail))) => {
                ctx.fail(format!("{}:after-{:?}", sig, op), format!("{} after step {} ({:?}) of {:?}: {}", label, k, op, ops.iter().map(|o| o.0).collect::<Vec<_>>(), detail));
                return grown;
            }
            Err(p) => {
                ctx.fail(format!("store-panic@{}", p.loc), format!("{} reading back after step {} {:?}: {}", label, k, op, p.msg));
                return grown;
            }
        }
    }
    grown
}

fn basic_sym(d: &BasicGarnishData<(), NoOpCompanion>, s: u64) -> Option<String> {
    d.get_symbol_string(s).ok().flatten().or(Some("<missing>".to_string()))
}
fn simple_sym(d: &garnish_lang_simple_data::SimpleGarnishData, s: u64) -> Option<String> {
    d.get_symbols().get(&s).cloned().or(Some("<missing>".to_string()))
}

fn decode_history(mut idx: u64, len: usize) -> Vec<(Op, usize)> {
    let mut ops = vec![];
    for i in 0..len {
        let o = OPS[(idx % 14) as usize];
        idx /= 14;
        ops.push((o, i * 7 + 1));
    }
    ops.reverse();
    ops
}

fn hist_count(max: usize) -> u64 {
    (1..=max).map(|l| 14u64.pow(l as u32)).sum()
}

fn index_to_history(mut idx: u64, max: usize) -> Vec<(Op, usize)> {
    for l in 1..=max {
        let c = 14u64.pow(l as u32);
        if idx < c {
            return decode_history(idx, l);
        }
        idx -= c;
    }
    vec![]
}

impl Check for C15Check {
    fn id(&self) -> &'static str {
        "C15"
    }
    fn rule(&self) -> String {
        "Histories over 14 operations (add_number, parse_add_char_list, parse_add_byte_list, parse_add_symbol, add_pair and a 0-3 item list of earlier values, push_instruction, push_to_jump_table with patching through get_from_jump_table_mut, push/pop register, push/pop value stack, push/pop frame). \
         Phase all-histories: every history of length <= H (H=5 quick, 6 thorough) on BasicGarnishData for each of 8 growth configurations applied to all tables (initial size 0/1/2 x growth +1 / +2 / x2 from a non-zero size), plus every history of length H+1 for the two tightest configurations (initial 0 +1; initial 1 x2); \
         phase random: histories of 50..400 operations on SimpleGarnishData and on BasicGarnishData with default and with tape-chosen per-table settings. \
         Oracle: an abstract model of independent growable tables; after EVERY operation every address ever returned reads back (type and content through the getters) as in the model, the instruction and jump tables match index by index, registers match in order (frame markers accounted for), the current value and symbol names match; pops return what the model says. \
         On SimpleGarnishData additionally: adding a bit-identical constant again returns the same address, a different constant a different address. \
         Phase constant-pairs: every ordered pair (A, B) of a pool of constants of every interned kind (numbers incl. the same value as integer and float, the same small number as number / char / byte / symbol / expression / external, types, texts and byte lists of lengths around 8..256 that differ only in their last, first or middle item) added as A, B, A, B to a fresh object of either implementation: all four read back as added; on SimpleGarnishData equal constants share one address, different ones never do. Phase objects: every value of the constant pool, of every value kind and of a set of lists / pairs holding equal-looking items (1 and 1.0, 0.0 and -0.0, equal texts) handed to BasicGarnishData::push_object_to_data_block as one BasicObject, between two other values: it reads back as that value and the neighbours are untouched; texts and byte lists also through add_string / add_byte_slice. Phase derived-values: every history of up to 5 (thorough 6) operations out of 13 that store a symbol, a number or a text or make a new value from stored ones (merge_to_symbol_list with the newest / oldest symbol list and symbol, add_concatenation, add_pair, add_range + add_slice, add_symbol_from and add_char_list_from of a stored number, eight registers pushed and popped followed by a list made with start_list / add_to_list / end_list and looked up by a key it holds and one it does not): after every operation every address handed out earlier reads back unchanged, on both implementations. Phase large-stores: 100 .. 5000 (thorough 70000) distinct constants of one kind (integers, floats, texts, byte lists, symbols) or a mix in one object, then every one of them added again forwards and backwards: on SimpleGarnishData each comes back at its first address and no two share one, on both implementations they read back as added. Non-trivial = a history in which at least two different tables grew while others held data; distinct = distinct (history, configuration)."
            .to_string()
    }
    fn assumptions(&self) -> Vec<String> {
        vec![
            "add_to_list is called exactly len times between start_list and end_list and no second list is opened meanwhile".into(),
            "pop_register never goes below the register depth recorded by the innermost open frame".into(),
            "growth policies that can make progress only: +n with n >= 1, xm with m >= 2 from size >= 1".into(),
        ]
    }
    fn phases(&self, tier: Tier) -> Vec<Phase> {
        let h = tier.pick(5, 6);
        vec![
            Phase::exhaustive("all-histories", hist_count(h) * 8).with_chunk(2048),
            Phase::exhaustive("longer-histories-tight-configs", 14u64.pow(h as u32 + 1) * 2).with_chunk(4096),
            Phase::random("random-long-histories", tier.pick(6_000, 150_000), 900).with_min_tape(120).with_chunk(64),
            Phase::exhaustive("constant-pairs", { let n = constant_pool().len() as u64; n * n }).with_chunk(128),
            Phase::exhaustive("objects", object_pool().len() as u64).with_chunk(8),
            Phase::exhaustive("derived-values", derived_count(tier.pick(5, 6))).with_chunk(1024),
            Phase::exhaustive("large-stores", (LARGE_KINDS.len() * tier.pick(LARGE_SIZES_QUICK.len(), LARGE_SIZES.len())) as u64).with_chunk(1).with_deadline_ms(60_000),
        ]
    }
    fn run(&self, tier: Tier, phase: usize, input: &Input, ctx: &mut CaseCtx) {
        let h = tier.pick(5, 6);
        match (phase, input) {
            (0, Input::Index(i)) => {
                let cfgs = configs();
                let (init, strat, name) = &cfgs[(*i % 8) as usize];
                let ops = index_to_history(*i / 8, h);
                ctx.render(|| format!("{:?} on Basic ({})", ops.iter().map(|o| o.0).collect::<Vec<_>>(), name));
                let mut d = basic_with(*init, strat.clone());
                let grown = run_history(&mut d, &ops, false, &format!("Basic[{}]", name), ctx, &basic_sym);
                if grown.iter().filter(|g| **g).count() >= 2 {
                    ctx.nontrivial(fnv(format!("{}|{}", i, name).as_bytes()));
                }
                ctx.class("exhaustive-history");
            }
            (1, Input::Index(i)) => {
                let cfgs = configs();
                let (init, strat, name) = &cfgs[(*i % 2) as usize];
                let ops = decode_history(*i / 2, h + 1);
                ctx.render(|| format!("{:?} on Basic ({})", ops.iter().map(|o| o.0).collect::<Vec<_>>(), name));
                let mut d = basic_with(*init, strat.clone());
                let grown = run_history(&mut d, &ops, false, &format!("Basic[{}]", name), ctx, &basic_sym);
                if grown.iter().filter(|g| **g).count() >= 2 {
                    ctx.nontrivial(fnv(format!("L{}|{}", i, name).as_bytes()));
                }
                ctx.class("exhaustive-history");
            }
            (3, Input::Index(i)) => {
                // A, B, A, B: in SimpleGarnishData equal constants share an address and different ones do not; in both
                // implementations all four read back as what was added
                let pool = constant_pool();
                let n = pool.len() as u64;
                let (ia, ib) = ((*i / n) as usize, (*i % n) as usize);
                let (a, b) = (&pool[ia], &pool[ib]);
                let short = |v: &V| {
                    let s = format!("{}", v);
                    if s.chars().count() > 24 { format!("{}…({} items)", s.chars().take(12).collect::<String>(), s.chars().count()) } else { s }
                };
                ctx.render(|| format!("add {} {}, {} {}, then both again", a.type_name(), short(a), b.type_name(), short(b)));
                ctx.class("constant-pair");
                ctx.nontrivial(fnv(format!("cp{}", i).as_bytes()));
                let key = format!("{}-vs-{}", a.type_name(), b.type_name());
                fn four<D: GD>(d: &mut D, a: &V, b: &V) -> Result<[usize; 4], String> {
                    let a1 = crate::model::value::build_value(d, a)?;
                    let b1 = crate::model::value::build_value(d, b)?;
                    let a2 = crate::model::value::build_value(d, a)?;
                    let b2 = crate::model::value::build_value(d, b)?;
                    Ok([a1, b1, a2, b2])
                }
                ctx.sub_evals += 2;
                {
                    let mut d = new_simple();
                    match guard("store", || four(&mut d, a, b)) {
                        Err(p) => ctx.fail(format!("store-panic@{}", p.loc), format!("Simple: {}", p.msg)),
                        Ok(Err(e)) => ctx.fail(format!("constant-not-addable:Simple:{}", key), e),
                        Ok(Ok([a1, b1, a2, b2])) => {
                            if a1 != a2 || b1 != b2 {
                                ctx.fail(format!("interning:equal-constant-gets-new-address:{}", key), format!("Simple: first added at {} / {}, added again at {} / {}", a1, b1, a2, b2));
                            }
                            if ia != ib && a1 == b1 {
                                ctx.fail(format!("interning:different-constants-share-an-address:{}", key), format!("Simple: both live at {}", a1));
                            }
                            for (addr, v) in [(a1, a), (b1, b), (a2, a), (b2, b)] {
                                let r = readback(&d, addr);
                                if !same(&r, v) {
                                    ctx.fail(format!("interning:constant-reads-back-as-another:{}", key), format!("Simple: address {} reads back {} {}", addr, r.type_name(), short(&r)));
                                }
                            }
                        }
                    }
                }
                {
                    let mut d = new_basic();
                    match guard("store", || four(&mut d, a, b)) {
                        Err(p) => ctx.fail(format!("store-panic@{}", p.loc), format!("Basic: {}", p.msg)),
                        Ok(Err(e)) => ctx.fail(format!("constant-not-addable:Basic:{}", key), e),
                        Ok(Ok(addrs)) => {
                            for (addr, v) in addrs.iter().zip([a, b, a, b]) {
                                let r = readback(&d, *addr);
                                if !same(&r, v) {
                                    ctx.fail(format!("value-changed:constant:{}", key), format!("Basic: address {} reads back {} {}", addr, r.type_name(), short(&r)));
                                }
                            }
                        }
                    }
                }
            }
            (4, Input::Index(i)) => {
                // BasicGarnishData's object interface: a whole value handed over as one BasicObject reads back as that value
                let pool = object_pool();
                let v = &pool[*i as usize];
                ctx.render(|| format!("push_object_to_data_block({})", v));
                ctx.class("object");
                ctx.nontrivial(fnv(format!("obj{}", i).as_bytes()));
                let obj = match to_basic_object(v) {
                    Some(o) => o,
                    None => {
                        ctx.class("object-kind-not-expressible");
                        return;
                    }
                };
                // texts and byte lists also through the helpers add_string / add_byte_slice
                if let V::Text(t) = v {
                    let s: String = t.iter().collect();
                    let mut h = new_basic();
                    match guard("store", || h.add_string(&s)) {
                        Ok(Ok(a)) => {
                            let _ = h.add_number(SimpleNumber::Integer(5));
                            let got = readback(&h, a);
                            if !same(&got, v) {
                                ctx.fail("add_string-reads-back-differently".to_string(), format!("add_string({:?}) at {} reads back as {}", s, a, got));
                            }
                        }
                        Ok(Err(e)) => ctx.fail("add_string-fails".to_string(), format!("add_string({:?}): {}", s, e)),
                        Err(p) => ctx.fail(format!("store-panic@{}", p.loc), format!("add_string({:?}): {}", s, p.msg)),
                    }
                }
                if let V::Bytes(bytes) = v {
                    let mut h = new_basic();
                    match guard("store", || h.add_byte_slice(bytes)) {
                        Ok(Ok(a)) => {
                            let _ = h.add_number(SimpleNumber::Integer(5));
                            let got = readback(&h, a);
                            if !same(&got, v) {
                                ctx.fail("add_byte_slice-reads-back-differently".to_string(), format!("add_byte_slice({:?}) at {} reads back as {}", bytes, a, got));
                            }
                        }
                        Ok(Err(e)) => ctx.fail("add_byte_slice-fails".to_string(), format!("add_byte_slice({:?}): {}", bytes, e)),
                        Err(p) => ctx.fail(format!("store-panic@{}", p.loc), format!("add_byte_slice({:?}): {}", bytes, p.msg)),
                    }
                }
                let mut d = new_basic();
                // something before and after it, so that lengths that are too long or too short read a neighbour
                let before = d.add_number(SimpleNumber::Integer(-77));
                match guard("store", || d.push_object_to_data_block(obj)) {
                    Err(p) => ctx.fail(format!("store-panic@{}", p.loc), format!("push_object_to_data_block({}): {}", v, p.msg)),
                    Ok(Err(e)) => ctx.fail(format!("object-not-addable:{}", v.type_name()), format!("push_object_to_data_block({}): {}", v, e)),
                    Ok(Ok(a)) => {
                        let after = d.parse_add_char_list("\"zz\"");
                        let got = readback(&d, a);
                        if !same(&got, v) {
                            ctx.fail(format!("object-reads-back-differently:{}", v.type_name()), format!("push_object_to_data_block({}) at {} reads back as {}", v, a, got));
                        }
                        if let (Ok(b), Ok(c)) = (before, after) {
                            if !same(&readback(&d, b), &V::Int(-77)) || !same(&readback(&d, c), &text("zz")) {
                                ctx.fail("object-disturbs-neighbours".to_string(), format!("values stored before / after {} changed", v));
                            }
                        }
                    }
                }
            }
            (5, Input::Index(i)) => {
                // values made out of stored values (symbol lists by merging, concatenations, pairs, ranges, slices): an
                // operation that makes a new value must not change what an address handed out earlier reads back as
                let ops = index_to_derived(*i, tier.pick(5, 6));
                ctx.render(|| format!("{:?}", ops));
                ctx.class("derived-values");
                ctx.sub_evals += 2;
                let a = guard("store", || run_derived(&mut new_simple(), &ops, "Simple", ctx));
                let derived = match a {
                    Ok(x) => x,
                    Err(p) => {
                        ctx.fail(format!("store-panic@{}", p.loc), format!("Simple {:?}: {}", ops, p.msg));
                        false
                    }
                };
                if let Err(p) = guard("store", || run_derived(&mut new_basic(), &ops, "Basic", ctx)) {
                    ctx.fail(format!("store-panic@{}", p.loc), format!("Basic {:?}: {}", ops, p.msg));
                }
                if derived {
                    ctx.nontrivial(fnv(format!("derived{}", i).as_bytes()));
                }
            }
            (6, Input::Index(i)) => {
                // many distinct constants of one kind (or a mix) in one object, then every one of them again
                let kind = LARGE_KINDS[(*i as usize) % LARGE_KINDS.len()];
                let n = LARGE_SIZES[(*i as usize) / LARGE_KINDS.len()];
                if n > 5000 && matches!(kind, "text" | "bytes" | "mixed") {
                    // BasicGarnishData grows its heap by a fixed step and copies it each time: tens of thousands of multi-cell
                    // values take minutes (quadratic, not a fault); the large sizes are run with one-cell constants only
                    ctx.class("large-store-size-skipped-for-multi-cell-values");
                    return;
                }
                ctx.render(|| format!("{} distinct {} constants, then each of them again (forwards, then backwards)", n, kind));
                ctx.class("large-store");
                ctx.nontrivial(fnv(format!("large{}", i).as_bytes()));
                let values: Vec<V> = (0..n).map(|k| large_value(kind, k)).collect();
                fn fill<D: GD>(d: &mut D, values: &[V]) -> Result<(Vec<usize>, Vec<usize>, Vec<usize>), String> {
                    let mut first = vec![];
                    for v in values {
                        first.push(crate::model::value::build_value(d, v)?);
                    }
                    let mut again = vec![];
                    for v in values {
                        again.push(crate::model::value::build_value(d, v)?);
                    }
                    let mut back = vec![0; values.len()];
                    for (k, v) in values.iter().enumerate().rev() {
                        back[k] = crate::model::value::build_value(d, v)?;
                    }
                    Ok((first, again, back))
                }
                ctx.sub_evals += 2;
                {
                    let mut d = new_simple();
                    match guard("store", || fill(&mut d, &values)) {
                        Err(p) => ctx.fail(format!("store-panic@{}", p.loc), format!("Simple: {}", p.msg)),
                        Ok(Err(e)) => ctx.fail(format!("constant-not-addable:Simple:large:{}", kind), e),
                        Ok(Ok((first, again, back))) => {
                            let mut seen = std::collections::HashMap::new();
                            for (k, a) in first.iter().enumerate() {
                                if let Some(other) = seen.insert(*a, k) {
                                    ctx.fail(format!("interning:different-constants-share-an-address:large:{}", kind), format!("Simple: constants #{} and #{} of {} both live at {}", other, k, n, a));
                                    break;
                                }
                            }
                            for k in 0..values.len() {
                                if first[k] != again[k] || first[k] != back[k] {
                                    ctx.fail(
                                        format!("interning:equal-constant-gets-new-address:large:{}", kind),
                                        format!("Simple: constant #{} of {} ({}) first added at {}, added again at {} and {}", k, n, values[k], first[k], again[k], back[k]),
                                    );
                                    break;
                                }
                            }
                            for k in (0..values.len()).step_by((values.len() / 257).max(1)) {
                                let r = readback(&d, first[k]);
                                if !same(&r, &values[k]) {
                                    ctx.fail(format!("interning:constant-reads-back-as-another:large:{}", kind), format!("Simple: constant #{} of {} ({}) reads back {}", k, n, values[k], r));
                                    break;
                                }
                            }
                        }
                    }
                }
                {
                    let mut d = new_basic();
                    match guard("store", || fill(&mut d, &values)) {
                        Err(p) => ctx.fail(format!("store-panic@{}", p.loc), format!("Basic: {}", p.msg)),
                        Ok(Err(e)) => ctx.fail(format!("constant-not-addable:Basic:large:{}", kind), e),
                        Ok(Ok((first, again, back))) => {
                            for k in (0..values.len()).step_by((values.len() / 257).max(1)) {
                                for a in [first[k], again[k], back[k]] {
                                    let r = readback(&d, a);
                                    if !same(&r, &values[k]) {
                                        ctx.fail(format!("value-changed:constant:large:{}", kind), format!("Basic: constant #{} of {} ({}) at {} reads back {}", k, n, values[k], a, r));
                                        break;
                                    }
                                }
                            }
                        }
                    }
                }
            }
            (2, Input::Tape(t)) => {
                let mut t = Tape::new(t);
                let n = 50 + t.choose(350);
                let target = t.choose(3);
                let weights = [10u32, 8, 5, 8, 8, 8, 10, 8, 10, 7, 6, 4, 4, 4];
                let ops: Vec<(Op, usize)> = (0..n).map(|_| (OPS[t.weighted(&weights)], t.byte() as usize)).collect();
                ctx.render(|| format!("{} operations starting {:?} (target {})", ops.len(), ops.iter().take(12).map(|o| o.0).collect::<Vec<_>>(), target));
                ctx.nontrivial(fnv(format!("{:?}", ops.iter().map(|o| (o.0 as u8, o.1)).collect::<Vec<_>>()).as_bytes()));
                match target {
                    0 => {
                        ctx.class("random-simple");
                        let mut d = new_simple();
                        run_history(&mut d, &ops, true, "Simple", ctx, &simple_sym);
                        // interning: equal constants share an address, different constants do not
                        let checks: [(SimpleNumber, SimpleNumber); 3] = [
                            (SimpleNumber::Integer(31337), SimpleNumber::Integer(31338)),
                            (SimpleNumber::Float(2.5), SimpleNumber::Float(2.25)),
                            (SimpleNumber::Integer(3), SimpleNumber::Float(3.0)),
                        ];
                        for (a, b) in checks {
                            use garnish_lang_traits::GarnishData;
                            let (a1, a2, b1) = match (d.add_number(a), d.add_number(a), d.add_number(b)) {
                                (Ok(x), Ok(y), Ok(z)) => (x, y, z),
                                _ => continue,
                            };
                            if a1 != a2 {
                                ctx.fail("interning:equal-constant-gets-new-address", format!("adding {:?} twice returned {} and {}", a, a1, a2));
                            }
                            if a1 == b1 {
                                ctx.fail("interning:different-constants-share-an-address", format!("{:?} and {:?} both live at {}", a, b, a1));
                            }
                            let (ra, rb) = (d.get_number(a1), d.get_number(b1));
                            let same_variant = |x: &SimpleNumber, y: &SimpleNumber| matches!((x, y), (SimpleNumber::Integer(p), SimpleNumber::Integer(q)) if p == q) || matches!((x, y), (SimpleNumber::Float(p), SimpleNumber::Float(q)) if p.to_bits() == q.to_bits());
                            if !matches!(&ra, Ok(x) if same_variant(x, &a)) || !matches!(&rb, Ok(x) if same_variant(x, &b)) {
                                ctx.fail("interning:constant-reads-back-as-another", format!("{:?} reads back {:?}; {:?} reads back {:?}", a, ra, b, rb));
                            }
                        }
                    }
                    1 => {
                        ctx.class("random-basic-default");
                        let mut d = new_basic();
                        run_history(&mut d, &ops, false, "Basic[default]", ctx, &basic_sym);
                    }
                    _ => {
                        ctx.class("random-basic-mixed-settings");
                        let mk = |t: &mut Tape| {
                            let init = t.choose(4);
                            let strat = match t.choose(3) {
                                0 => ReallocationStrategy::FixedSize(1 + t.choose(3)),
                                1 => ReallocationStrategy::FixedSize(1),
                                _ => ReallocationStrategy::Multiplicative(2 + t.choose(2)),
                            };
                            let init = if matches!(strat, ReallocationStrategy::Multiplicative(_)) { init.max(1) } else { init };
                            StorageSettings::new(init, usize::MAX, strat)
                        };
                        let mut d = BasicGarnishData::new_with_settings(mk(&mut t), mk(&mut t), mk(&mut t), mk(&mut t), mk(&mut t), mk(&mut t), NoOpCompanion::new()).expect("new_with_settings");
                        run_history(&mut d, &ops, false, "Basic[mixed]", ctx, &basic_sym);
                    }
                }
            }
            _ => {}
        }
    }
}
