use crate::engine::core::Check;

pub mod c09;

pub fn all() -> Vec<&'static dyn Check> {
    vec![&c09::C09]
}

pub fn find(id: &str) -> Option<&'static dyn Check> {
    all().into_iter().find(|c| c.id() == id)
}
