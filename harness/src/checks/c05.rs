//! C05 — built instruction streams are well-formed.

use crate::checks::c02;
use crate::engine::core::*;
use crate::engine::tape::{Tape, fnv};
use crate::model::data::*;
use crate::model::optable;
use crate::model::pipeline::*;
use crate::model::refparse::{Layout, compose, render};
use crate::model::stream::*;
use garnish_lang_compiler::parse::ParseResult;

pub struct C05Check;
pub static C05: C05Check = C05Check;

pub const DECOY: &str = "1 + 2 ?> { 3 } |> 4 && $";

/// programs built first, so that the program under test starts at non-zero table indexes; they differ in how the
/// instruction stream they leave behind ends (a jump, a bare end of expression, the empty program's end of expression)
/// and in what they intern (the identifiers and constants the corpora use)
pub const DECOYS: &[&str] = &[DECOY, "5", "", "a b f g k u v w x y zz 5 1 2 3 10 \"a\" 'a' :a"];

pub fn build_decoy<D: GD>(data: &mut D, decoy: &str) -> Result<(), String> {
    let toks = lex_g(decoy).map_err(|p| p.msg)?.map_err(|e| e)?;
    let dp = parse_g(&toks).map_err(|p| p.msg)?.map_err(|e| e)?;
    build_g(&dp, data).map_err(|p| format!("panic {}", p.loc))?.map_err(|e| e)?;
    Ok(())
}

fn copy_of_used_object() -> Option<garnish_lang_simple_data::SimpleGarnishData> {
    use garnish_lang_traits::GarnishData;
    let mut d = new_simple();
    let toks = lex_g("2 + 3").ok()?.ok()?;
    let dp = parse_g(&toks).ok()?.ok()?;
    let b = build_g(&dp, &mut d).ok()?.ok()?;
    let last = d.get_data_len().checked_sub(1)?;
    d.set_end_of_constant(last).ok()?;
    if !matches!(run_program(&mut d, *b.jump_index(), None, 100), RunEnd::Finished(_)) {
        return None;
    }
    guard("store", || d.clone_without_data()).ok()?.ok()
}

/// build `parsed` into `data` (optionally after a decoy program) and return what the build added
pub fn build_with_extent<D: GD>(data: &mut D, parsed: &ParseResult, with_decoy: bool) -> Result<(Extent, Vec<Option<usize>>), String> {
    if with_decoy {
        build_decoy(data, DECOY)?;
    }
    let (i0, j0, d0) = snapshot_lens(data);
    let b = match build_g(parsed, data) {
        Err(p) => return Err(format!("panic@{}", p.loc)),
        Ok(Err(e)) => return Err(format!("rejected: {}", e)),
        Ok(Ok(b)) => b,
    };
    let (i1, j1, d1) = snapshot_lens(data);
    let meta: Vec<Option<usize>> = b.instruction_metadata().iter().map(|m| m.get_parse_node_index()).collect();
    Ok((Extent { instr: (i0, i1), jumps: (j0, j1), data: (d0, d1), entry: *b.jump_index() }, meta))
}

pub fn judge(input: &str, ctx: &mut CaseCtx) {
    ctx.render(|| format!("{:?}", input));
    let tokens = match lex_g(input) {
        Ok(Ok(t)) => t,
        _ => {
            ctx.class("not-accepted");
            return;
        }
    };
    let parsed = match parse_g(&tokens) {
        Ok(Ok(p)) => p,
        _ => {
            ctx.class("not-accepted");
            return;
        }
    };
    if tree_has_cycle(parsed.get_root(), parsed.get_nodes()) {
        ctx.class("cyclic-tree-skipped");
        return;
    }
    let node_count = parsed.get_nodes().len();
    let empty_group = has_empty_group(&tokens);
    let mut any = false;
    // state of the data object the program is built into: 0 fresh, 1 after the main decoy, 2.. after another decoy,
    // last: (BasicGarnishData) after the identifier decoy was built and the store compacted without retaining it.
    // Short inputs see every state; longer ones the fresh one, the main decoy and one more chosen by their hash.
    let compacted = DECOYS.len() + 1;
    // (SimpleGarnishData) a clone_without_data copy of an object in which `2 + 3` was built, marked constant and run:
    // the copy holds the program and its constants but not the 5 the run stored behind them
    let copy_of_used = DECOYS.len() + 2;
    let states: Vec<usize> = if input.len() < 8 { (0..=copy_of_used).collect() } else { vec![0, 1, 2 + (fnv(input.as_bytes()) % (DECOYS.len() as u64 + 1)) as usize] };
    for imp in Impl::BOTH {
        for state in states.iter().copied() {
            if (state == compacted && imp == Impl::Simple) || (state == copy_of_used && imp == Impl::Basic) {
                continue;
            }
            let with_decoy = state != 0;
            ctx.sub_evals += 1;
            let (res, rendered, faults) = match imp {
                Impl::Simple => {
                    let mut d = new_simple();
                    if state == copy_of_used {
                        match copy_of_used_object() {
                            Some(c) => d = c,
                            None => continue,
                        }
                    } else if state >= 1 && build_decoy(&mut d, DECOYS[state - 1]).is_err() {
                        continue;
                    }
                    match build_with_extent(&mut d, &parsed, false) {
                        Ok((ext, meta)) => (Some(ext), render_stream(&d, &ext), streamcheck(&d, &ext, &meta, node_count)),
                        Err(_) => (None, String::new(), vec![]),
                    }
                }
                Impl::Basic => {
                    let mut d = new_basic();
                    if state == compacted {
                        if build_decoy(&mut d, DECOYS[DECOYS.len() - 1]).is_err() || !matches!(guard("store", || d.optimize(&[])), Ok(Ok(_))) {
                            continue;
                        }
                    } else if state >= 1 && build_decoy(&mut d, DECOYS[state - 1]).is_err() {
                        continue;
                    }
                    match build_with_extent(&mut d, &parsed, false) {
                        Ok((ext, meta)) => (Some(ext), render_stream(&d, &ext), streamcheck(&d, &ext, &meta, node_count)),
                        Err(_) => (None, String::new(), vec![]),
                    }
                }
            };
            if let Some(ext) = res {
                any = true;
                if ext.jumps.1 - ext.jumps.0 >= 2 {
                    ctx.nontrivial(fnv(input.as_bytes()));
                }
                for f in faults {
                    let sig = if empty_group { format!("{}[input-has-empty-group]", f.sig) } else { f.sig };
                    ctx.fail(sig, format!("{:?} built into {}{}: {} — stream {}", input, imp.name(), if state == compacted { " after an earlier program was built and the store compacted without retaining it".to_string() } else if state == copy_of_used { " (a clone_without_data copy of an object in which `2 + 3` was built, marked constant and run)".to_string() } else if with_decoy { format!(" after the decoy program {:?}", DECOYS[state - 1]) } else { String::new() }, f.detail, rendered));
                }
            }
        }
    }
    ctx.class(if any { "built" } else { "build-rejected" });
}

/// `( )` with nothing but white space / annotations inside: emits no instruction (known finding, pinned by a builder test)
pub fn has_empty_group(tokens: &[garnish_lang_compiler::lex::LexerToken]) -> bool {
    use garnish_lang_compiler::lex::TokenType;
    let sig: Vec<TokenType> = tokens.iter().map(|t| t.get_token_type()).filter(|t| !matches!(t, TokenType::Whitespace | TokenType::Annotation | TokenType::LineAnnotation | TokenType::Subexpression | TokenType::ExpressionSeparator)).collect();
    sig.windows(2).any(|w| w[0] == TokenType::StartGroup && w[1] == TokenType::EndGroup)
}

impl Check for C05Check {
    fn id(&self) -> &'static str {
        "C05"
    }
    fn rule(&self) -> String {
        "Same corpus as C04 (every sequence of up to L token classes x 3 separators, level-representative operator triples, token soups, random deeper expressions). Every input that parse and build accept is built into SimpleGarnishData and BasicGarnishData, \
         each fresh and after a decoy program (so all table indexes of the program under test are > 0 and an unpatched 0 placeholder or an absolute/relative mix-up leaves its own range); the decoys differ in how the stream they leave behind ends (a jump, a bare end of expression, the empty program) and in what they intern (the corpus's identifiers and constants), \
         and BasicGarnishData is also used after the identifier decoy was built and the store compacted with nothing retained; and SimpleGarnishData as a clone_without_data copy of an object in which a program was built, marked constant and run; inputs shorter than 8 bytes see all seven states, longer ones three (fresh, main decoy, one chosen by hash). \
         Oracle (through GarnishData getters only): Put/Resolve operands name existing values (Resolve: a Symbol), jump operands and Expression values name jump entries created by this build, every entry created by this build points inside this build's instructions, \
         the last instruction and the instruction before every body entry (root, Expression bodies, conditional arms, logical right operands) is EndExpression/JumpTo, one metadata record per emitted instruction naming an existing parse node. \
         Non-trivial = program with >= 2 jump-table entries; distinct = distinct inputs."
            .to_string()
    }
    fn assumptions(&self) -> Vec<String> {
        vec!["join points (targets of JumpTo only) may be entered by fall-through; body entries may not".into(), "parse results containing a cycle are skipped here (owned by C03/C04)".into()]
    }
    fn phases(&self, tier: Tier) -> Vec<Phase> {
        let l = tier.pick(4, 5);
        let r = optable::level_representatives().len() as u64;
        vec![
            Phase::exhaustive("class-sequences", class_sequence_count(l)).with_chunk(8192),
            Phase::exhaustive("operator-triples", r * r * r * 2).with_chunk(4096),
            Phase::random("token-soups", tier.pick(80_000, 3_000_000), 120).with_min_tape(6).with_chunk(1024),
            Phase::random("random-deep-expressions", tier.pick(120_000, 3_000_000), 96).with_min_tape(16).with_chunk(2048),
            Phase::exhaustive("statement-blocks", block_string_count(tier.pick(7, 8))).with_chunk(16384),
            Phase::exhaustive("control-flow-skeletons", crate::model::astgen::CONTROL.count_up_to(tier.pick(8, 9))).with_chunk(4096),
            Phase::exhaustive("repetition", repetition_corpus().len() as u64).with_chunk(16),
        ]
    }
    fn run(&self, tier: Tier, phase: usize, input: &Input, ctx: &mut CaseCtx) {
        match (phase, input) {
            (_, Input::Text(s)) => judge(s, ctx),
            (6, Input::Index(i)) => judge(&repetition_corpus()[*i as usize], ctx),
            (0, Input::Index(i)) => judge(&class_sequence(*i, tier.pick(4, 5)), ctx),
            (1, Input::Index(i)) => match triple_source(*i) {
                Some(s) => judge(&s, ctx),
                None => ctx.class("invalid-fixity-sequence"),
            },
            (2, Input::Tape(t)) => judge(&token_soup(&mut Tape::new(t), 40), ctx),
            (3, Input::Tape(t)) => judge(&c02::random_source(t), ctx),
            (4, Input::Index(i)) => judge(&block_string(*i, tier.pick(7, 8)), ctx),
            (5, Input::Index(i)) => match crate::model::astgen::control_source(*i, tier.pick(8, 9)) {
                Some(s) => judge(&s, ctx),
                None => ctx.class("not-printable"),
            },
            _ => {}
        }
    }
}

/// source of the i-th level-representative operator triple (2 layout/atom variants)
pub fn triple_source(i: u64) -> Option<String> {
    let reps = optable::level_representatives();
    let k = reps.len() as u64;
    let variant = i % 2;
    let mut r = i / 2;
    let mut ops = vec![];
    for _ in 0..3 {
        ops.push(reps[(r % k) as usize]);
        r /= k;
    }
    let atoms: &[(&'static str, &str)] = if variant == 0 { &[("Number", "1"), ("Number", "2"), ("Number", "3"), ("Number", "4")] } else { &[("Identifier", "a"), ("Identifier", "b"), ("Identifier", "c"), ("Identifier", "d")] };
    compose(&ops, atoms).map(|t| render(&t, if variant == 0 { Layout::Spaced } else { Layout::Tight }))
}
