//! C11 — equality is structural and an equivalence relation.

use crate::checks::c01::{Got, run_real};
use crate::engine::core::*;
use crate::engine::tape::{Tape, fnv};
use crate::model::data::*;
use crate::model::opcall::call;
use crate::model::value::{SymPart, V, pair, sym, text};
use garnish_lang_simple_data::symbol_value;
use garnish_lang_traits::Instruction;

pub struct C11Check;
pub static C11: C11Check = C11Check;

// ---------------------------------------------------------------------------------------------
// the model: canonical form + structural identity

fn flat(v: &V, out: &mut Vec<V>) {
    match v {
        V::Concat(a, b) => {
            flat(a, out);
            flat(b, out);
        }
        V::List(items) => out.extend(items.iter().cloned()),
        other => out.push(other.clone()),
    }
}

/// canonical representative of the equality class the statement describes
pub fn canon(v: &V) -> V {
    match v {
        V::Int(i) => V::Float(*i as f64),
        V::Float(f) => V::Float(if *f == 0.0 { 0.0 } else { *f }),
        V::Char(c) => V::Text(vec![*c]),
        V::Byte(b) => V::Bytes(vec![*b]),
        V::Pair(a, b) => V::Pair(Box::new(canon(a)), Box::new(canon(b))),
        V::List(items) => V::List(items.iter().map(canon).collect()),
        V::Concat(..) => {
            let mut items = vec![];
            flat(v, &mut items);
            V::List(items.iter().map(canon).collect())
        }
        V::SymList(parts) => V::SymList(parts.clone()),
        other => other.clone(),
    }
}

pub fn model_equal(a: &V, b: &V) -> bool {
    crate::model::value::same(&canon(a), &canon(b)) && !matches!((a, b), (V::Expr(x), V::Expr(y)) if x != y)
}

// ---------------------------------------------------------------------------------------------
// generators

fn leaf(t: &mut Tape) -> V {
    match t.choose(16) {
        0 => V::Unit,
        1 => V::True,
        2 => V::False,
        3 => V::Int([0, 1, 2, -1, 7, 2147483647, -2147483648][t.choose(7)]),
        4 => V::Float([0.0, 1.0, 2.0, 0.5, -1.0, 7.0, 1e10, 1.0000000000000002, 0.30000000000000004, 0.3][t.choose(10)]),
        5 => V::Char(['a', 'b', 'é', '漢', '\0'][t.choose(5)]),
        6 => V::Byte([0u8, 1, 97, 255][t.choose(4)]),
        7 => sym(["a", "b", "c"][t.choose(3)]),
        8 => V::SymList((0..2 + t.choose(2)).map(|_| if t.chance(200) { SymPart::Sym(symbol_value(["a", "b", "c"][t.choose(3)])) } else { SymPart::Num(t.choose(3) as i32) }).collect()),
        9 => text(["", "a", "ab", "abc", "é", "a漢"][t.choose(6)]),
        10 => V::Bytes([vec![], vec![97], vec![97, 98], vec![0, 255]][t.choose(4)].clone()),
        11 => V::Int(t.choose(4) as i32),
        12 => text(["a", "b"][t.choose(2)]),
        13 => V::Int(1),
        14 => V::Float(1.0),
        _ => V::List(vec![]),
    }
}

pub fn tree(t: &mut Tape, depth: u32) -> V {
    if depth == 0 || t.chance(90) {
        return leaf(t);
    }
    match t.choose(6) {
        0 => pair(tree(t, depth - 1), tree(t, depth - 1)),
        1 | 2 => {
            let n = t.choose(5);
            V::List((0..n).map(|_| tree(t, depth - 1)).collect())
        }
        3 => V::Concat(Box::new(tree(t, depth - 1)), Box::new(tree(t, depth - 1))),
        // the same sub-value more than once (the sharing build mode puts all occurrences at one address)
        4 => {
            let x = tree(t, depth - 1);
            match t.choose(3) {
                0 => pair(x.clone(), x),
                1 => V::Concat(Box::new(x.clone()), Box::new(x)),
                _ => V::List(vec![x.clone(), tree(t, depth - 1), x]),
            }
        }
        _ => {
            let x = tree(t, depth - 1);
            V::Concat(Box::new(V::Concat(Box::new(x.clone()), Box::new(tree(t, depth - 1)))), Box::new(x))
        }
    }
}

/// a value equal to `v` by the statement but represented / built differently
pub fn twin(v: &V, t: &mut Tape) -> V {
    match v {
        V::Int(i) if t.flag() => V::Float(*i as f64),
        V::Float(f) if f.fract() == 0.0 && f.abs() < 2e9 && t.flag() => V::Int(*f as i32),
        V::Char(c) if t.flag() => V::Text(vec![*c]),
        V::Text(x) if x.len() == 1 && t.flag() => V::Char(x[0]),
        V::Byte(b) if t.flag() => V::Bytes(vec![*b]),
        V::Bytes(x) if x.len() == 1 && t.flag() => V::Byte(x[0]),
        V::Pair(a, b) => pair(twin(a, t), twin(b, t)),
        V::List(items) => {
            let tw: Vec<V> = items.iter().map(|i| twin(i, t)).collect();
            if tw.len() >= 2 && t.flag() {
                // the same flat items as a concatenation of two lists
                let k = 1 + t.choose(tw.len() - 1);
                V::Concat(Box::new(V::List(tw[..k].to_vec())), Box::new(V::List(tw[k..].to_vec())))
            } else {
                V::List(tw)
            }
        }
        V::Concat(..) => {
            let mut items = vec![];
            flat(v, &mut items);
            let tw: Vec<V> = items.iter().map(|i| twin(i, t)).collect();
            if t.flag() { V::List(tw) } else { V::Concat(Box::new(V::List(tw.clone())), Box::new(V::List(vec![]))) }
        }
        other => other.clone(),
    }
}

/// a near miss: one leaf changed, an item dropped or added at the end, deep mismatch after an equal prefix
pub fn mutant(v: &V, t: &mut Tape) -> V {
    match v {
        V::Pair(a, b) => {
            if t.flag() { pair(mutant(a, t), (**b).clone()) } else { pair((**a).clone(), mutant(b, t)) }
        }
        V::List(items) if !items.is_empty() => {
            let mut it = items.clone();
            match t.choose(3) {
                0 => {
                    it.pop();
                }
                1 => it.push(leaf(t)),
                _ => {
                    let k = it.len() - 1;
                    it[k] = mutant(&it[k], t);
                }
            }
            V::List(it)
        }
        V::List(_) => V::List(vec![V::Unit]),
        V::Concat(a, b) => V::Concat(a.clone(), Box::new(mutant(b, t))),
        V::Int(i) => V::Int(i.wrapping_add(1)),
        V::Float(f) => V::Float(f + 0.5),
        V::Text(x) => {
            let mut y = x.clone();
            if y.is_empty() || t.flag() {
                y.push('z');
            } else {
                let k = y.len() - 1;
                y[k] = if y[k] == 'q' { 'r' } else { 'q' };
            }
            V::Text(y)
        }
        V::Bytes(x) => {
            let mut y = x.clone();
            y.push(1);
            V::Bytes(y)
        }
        V::Char(c) => V::Char(if *c == 'q' { 'r' } else { 'q' }),
        V::Byte(b) => V::Byte(b.wrapping_add(1)),
        V::Sym(s) => V::Sym(s.wrapping_add(1)),
        V::SymList(p) => {
            let mut q = p.clone();
            q.push(SymPart::Num(9));
            V::SymList(q)
        }
        V::Unit => V::False,
        V::True => V::False,
        V::False => V::True,
        other => other.clone(),
    }
}

/// operands written in source, with the items each contributes to a concatenation (a list its items, anything else itself)
pub const WRITTEN_OPERANDS: &[(&str, &[&str])] = &[
    ("(,)", &[]),
    ("5", &["5"]),
    ("( 5 , )", &["5"]),
    ("( 1 2 )", &["1", "2"]),
    ("\"a\"", &["\"a\""]),
    ("( :a = 1 )", &["( :a = 1 )"]),
    ("( ( 7 8 ) , )", &["( 7 8 )"]),
    ("()", &["()"]),
];

/// the flat list of the operands' items, spelled as a comma list (a one-item list needs its trailing comma, the empty list is `(,)`)
pub fn spelled_flat(operands: &[&(&str, &[&str])]) -> String {
    let items: Vec<&str> = operands.iter().flat_map(|o| o.1.iter().copied()).collect();
    match items.len() {
        0 => "(,)".to_string(),
        1 => format!("( {} , )", items[0]),
        _ => format!("( {} )", items.join(" , ")),
    }
}

pub fn small_pool() -> Vec<V> {
    let l = |v: Vec<V>| V::List(v);
    vec![
        V::Unit,
        V::True,
        V::False,
        V::Int(0),
        V::Int(1),
        V::Float(1.0),
        V::Float(0.0),
        V::Float(0.5),
        V::Float(1.0000000000000002),
        V::Float(0.30000000000000004),
        V::Float(0.3),
        V::Int(-1),
        V::Char('a'),
        text("a"),
        text("ab"),
        text(""),
        text("é"),
        V::Char('é'),
        V::Byte(97),
        V::Bytes(vec![97]),
        V::Bytes(vec![]),
        V::Bytes(vec![97, 98]),
        sym("a"),
        sym("b"),
        V::SymList(vec![SymPart::Sym(symbol_value("a")), SymPart::Sym(symbol_value("b"))]),
        V::SymList(vec![SymPart::Sym(symbol_value("a")), SymPart::Num(1)]),
        pair(V::Int(1), V::Int(2)),
        pair(V::Float(1.0), V::Int(2)),
        pair(V::Int(1), V::Int(3)),
        pair(sym("a"), text("a")),
        pair(sym("a"), V::Char('a')),
        l(vec![]),
        l(vec![V::Int(1)]),
        l(vec![V::Int(1), V::Int(2)]),
        l(vec![V::Int(1), V::Int(2), V::Int(3)]),
        l(vec![V::Float(1.0), V::Int(2)]),
        l(vec![V::Int(2), V::Int(1)]),
        l(vec![l(vec![V::Int(1), V::Int(2)])]),
        l(vec![l(vec![V::Int(1)]), V::Int(2)]),
        l(vec![V::Int(1), l(vec![V::Int(2)])]),
        V::Concat(Box::new(V::Int(1)), Box::new(V::Int(2))),
        V::Concat(Box::new(l(vec![V::Int(1)])), Box::new(l(vec![V::Int(2)]))),
        V::Concat(Box::new(l(vec![V::Int(1), V::Int(2)])), Box::new(V::Int(3))),
        V::Concat(Box::new(l(vec![])), Box::new(l(vec![]))),
        V::Concat(Box::new(V::Concat(Box::new(V::Int(1)), Box::new(V::Int(2)))), Box::new(V::Int(3))),
        V::Concat(Box::new(V::Int(1)), Box::new(V::Concat(Box::new(V::Int(2)), Box::new(V::Int(3))))),
        l(vec![pair(sym("a"), V::Int(1)), pair(sym("b"), V::Int(2))]),
        l(vec![pair(sym("b"), V::Int(2)), pair(sym("a"), V::Int(1))]),
        l(vec![text("a"), V::Char('a')]),
        l(vec![V::Char('a'), text("a")]),
        l(vec![V::Unit, V::False]),
        // the same compound sub-value occurring twice (one address in the sharing build mode) and its flat spelling
        {
            let c = V::Concat(Box::new(V::Int(1)), Box::new(V::Int(2)));
            V::Concat(Box::new(c.clone()), Box::new(c))
        },
        l(vec![V::Int(1), V::Int(2), V::Int(1), V::Int(2)]),
        {
            let x = l(vec![V::Int(1), V::Int(2)]);
            l(vec![x.clone(), x])
        },
        {
            let x = pair(V::Int(1), V::Int(2));
            pair(x.clone(), x)
        },
    ]
}

fn as_bool(v: &Result<V, String>) -> Option<bool> {
    match v {
        Ok(V::True) => Some(true),
        Ok(V::False) => Some(false),
        _ => None,
    }
}

fn kinds(a: &V, b: &V) -> String {
    format!("{}-vs-{}", a.type_name(), b.type_name())
}

impl C11Check {
    /// all clauses for one ordered pair on one implementation
    fn judge_pair(&self, a: &V, b: &V, ctx: &mut CaseCtx) {
        let expected = model_equal(a, b);
        ctx.render(|| format!("{}  ==  {}   (model: {})", a, b, expected));
        if a.depth() >= 2 || b.depth() >= 2 {
            ctx.nontrivial(fnv(format!("{}|{}", a, b).as_bytes()));
        }
        ctx.class(if expected { "model-equal" } else { "model-different" });
        if a.type_name() != b.type_name() && expected {
            ctx.class("cross-representation-match");
        }
        for imp in Impl::BOTH {
            for (ins, negate) in [(Instruction::Equal, false), (Instruction::NotEqual, true)] {
                // (operand order, build mode): fresh = every sub-value at its own address; sharing = identical sub-values
                // (inside one operand and across both) live at one address
                for (swap, sharing) in [(false, false), (true, false), (false, true)] {
                    ctx.sub_evals += 1;
                    let (x, y) = if swap { (b, a) } else { (a, b) };
                    let out = match (imp, sharing) {
                        (Impl::Simple, false) => call(&mut new_simple(), ins, x, Some(y)),
                        (Impl::Basic, false) => call(&mut new_basic(), ins, x, Some(y)),
                        (Impl::Simple, true) => crate::model::opcall::call_sharing(&mut new_simple(), ins, x, Some(y)),
                        (Impl::Basic, true) => crate::model::opcall::call_sharing(&mut new_basic(), ins, x, Some(y)),
                    };
                    let out = match out {
                        Ok(o) => o,
                        Err(e) => {
                            ctx.class("operands-not-buildable");
                            let _ = e;
                            return;
                        }
                    };
                    let what = format!("{} {} {} on {}{}", x, if negate { "!=" } else { "==" }, y, imp.name(), if sharing { " (identical sub-values shared at one address)" } else { "" });
                    if let Some(loc) = &out.panicked {
                        ctx.fail(format!("panic@{}", loc), what.clone());
                        continue;
                    }
                    match as_bool(&out.result) {
                        None => ctx.fail(format!("no-boolean:{}", kinds(x, y)), format!("{} gave {:?}", what, out.result)),
                        Some(g) => {
                            let want = expected != negate;
                            if g != want {
                                let law = if sharing { "wrong-with-shared-sub-values" } else if swap { "asymmetric-or-wrong" } else { "wrong" };
                                ctx.fail(
                                    format!("equality-{}:{}:{}", law, kinds(x, y), if expected { "equal-values-reported-different" } else { "different-values-reported-equal" }),
                                    format!("{} gave {}, the values are {} by the statement", what, g, if expected { "equal" } else { "different" }),
                                );
                            }
                        }
                    }
                    if out.left_above_sentinels != 1 || !out.sentinels_intact {
                        ctx.fail(
                            format!("operand-stack-after-comparison:{}", if out.left_above_sentinels > 1 { "left-behind" } else { "took-too-many" }),
                            format!("{}: {} registers above the sentinels after the comparison (must be 1), sentinels intact: {}", what, out.left_above_sentinels, out.sentinels_intact),
                        );
                    }
                }
            }
            // the same through a compiled program: ($ . 0) == ($ . 1)
            ctx.sub_evals += 1;
            let input = V::List(vec![a.clone(), b.clone()]);
            match run_real(imp, "$ . 0 == $ . 1", None, &input, 2000) {
                Got::Value(V::True) if expected => {}
                Got::Value(V::False) if !expected => {}
                Got::HarnessError(_) => {}
                other => ctx.fail(format!("program-equality-wrong:{}", kinds(a, b)), format!("`$ . 0 == $ . 1` with $ = ({}, {}) on {} gave {:?}, model says {}", a, b, imp.name(), other, expected)),
            }
        }
    }
}

impl Check for C11Check {
    fn id(&self) -> &'static str {
        "C11"
    }
    fn rule(&self) -> String {
        format!(
            "Phase pool-pairs: every ordered pair of a pool of {} small values (units, booleans, ints/floats incl. 1 vs 1.0, char vs one-character text, byte vs one-byte list, multi-byte text, symbols, symbol lists, pairs, lists, nested lists, concatenations spelling the same flat sequence in different shapes, empty sequences, keyed lists in different order, the same compound sub-value occurring twice); each pair is compared with every sub-value at its own address and again with identical sub-values shared at one address; \
             phase random: value trees (depth <= 3, width <= 4) from a proptest tape, each paired with a twin (same value built differently: int/float, char/text, list/concatenation split at a random point, different addresses), a near-miss mutant (one leaf changed, an item dropped or added at the end, mismatch after a long equal prefix) and an independent tree; transitivity on (tree, twin, twin-of-twin). \
             Each pair is compared in both orders with the Equal and NotEqual instructions called directly on operands placed above two sentinel registers, and through the compiled program `$ . 0 == $ . 1`, on both data implementations. \
             Oracle: result = structural identity of canonical forms (numbers numerically, char = 1-char text, byte = 1-byte list, lists and concatenations as flat item sequences); symmetric; `!=` is the negation; exactly one register above the intact sentinels afterwards. \
             Phase written-concatenations: two or three operands written in a program (empty list, number, one-item list, list, text, pair, list holding a list, unit) joined by `<>` in both nestings and compared with the flat list of their items by `==` and `!=`, on both implementations (this exercises the concatenation instruction, the other phases build values through the data interface). Non-trivial = an operand nested at depth >= 2; distinct = distinct ordered value pairs.",
            small_pool().len()
        )
    }
    fn assumptions(&self) -> Vec<String> {
        vec!["floats are finite; ranges, slices, partials, externals and expression values are outside the statement's list and not generated".into()]
    }
    fn phases(&self, tier: Tier) -> Vec<Phase> {
        let n = small_pool().len() as u64;
        vec![
            Phase::exhaustive("pool-pairs", n * n).with_chunk(64),
            Phase::random("random-trees", tier.pick(200_000, 2_000_000), 120).with_min_tape(24).with_chunk(512),
            Phase::exhaustive("written-concatenations", (WRITTEN_OPERANDS.len() as u64).pow(3) * 2 + (WRITTEN_OPERANDS.len() as u64).pow(2)).with_chunk(64),
            Phase::exhaustive("size-sweep", (crate::model::pipeline::SIZE_SWEEP.iter().filter(|n| **n <= tier.pick(129, 1000)).count() * 6 * 6) as u64).with_chunk(2).with_deadline_ms(30_000),
        ]
    }
    fn run(&self, _tier: Tier, phase: usize, input: &Input, ctx: &mut CaseCtx) {
        match (phase, input) {
            (0, Input::Index(i)) => {
                let p = small_pool();
                let n = p.len() as u64;
                self.judge_pair(&p[(*i / n) as usize], &p[(*i % n) as usize], ctx);
            }
            (2, Input::Index(i)) => {
                // concatenations written in a program (the `<>` instruction itself, not the data interface): two or three
                // operands in both nestings compared with the flat list of their items
                let n = WRITTEN_OPERANDS.len() as u64;
                let (text, expected_true) = if *i < n * n {
                    let (a, b) = (&WRITTEN_OPERANDS[(*i / n) as usize], &WRITTEN_OPERANDS[(*i % n) as usize]);
                    let flat = spelled_flat(&[a, b]);
                    (format!("( {} <> {} ) == {}", a.0, b.0, flat), true)
                } else {
                    let j = *i - n * n;
                    let right_nested = j % 2 == 1;
                    let r = j / 2;
                    let (a, b, c) = (&WRITTEN_OPERANDS[(r / (n * n)) as usize], &WRITTEN_OPERANDS[((r / n) % n) as usize], &WRITTEN_OPERANDS[(r % n) as usize]);
                    let flat = spelled_flat(&[a, b, c]);
                    if right_nested { (format!("( {} <> ( {} <> {} ) ) == {}", a.0, b.0, c.0, flat), true) } else { (format!("( ( {} <> {} ) <> {} ) == {}", a.0, b.0, c.0, flat), true) }
                };
                ctx.render(|| format!("{:?} should be {}", text, expected_true));
                ctx.class("written-concatenation");
                ctx.nontrivial(fnv(text.as_bytes()));
                for imp in Impl::BOTH {
                    for (program, want) in [(text.clone(), expected_true), (text.replacen("==", "!=", 1), !expected_true)] {
                        ctx.sub_evals += 1;
                        match run_real(imp, &program, None, &V::Unit, 4000) {
                            Got::Value(V::True) if want => {}
                            Got::Value(V::False) if !want => {}
                            other => ctx.fail(
                                format!("written-concatenation:{}", if program.contains("!=") { "not-equal-wrong" } else { "flat-sequence-not-equal" }),
                                format!("{:?} on {}: expected {} got {:?}", program, imp.name(), want, other),
                            ),
                        }
                    }
                }
            }
            (3, Input::Index(i)) => {
                // long sequences of every kind: an equal twin, a twin differing in one position (first, middle, last), one shorter, one longer
                let n = crate::model::pipeline::SIZE_SWEEP[(*i / 36) as usize];
                let kind = (*i / 6) % 6;
                if kind == 4 && n > 65 {
                    // long symbol lists are slow to build and compare on BasicGarnishData (minutes at 200 parts); time is not C11's subject
                    ctx.class("size-sweep-symbol-list-too-long");
                    return;
                }
                let variant = *i % 6;
                let mut idx: Vec<usize> = (0..n).collect();
                let mut changed: Option<usize> = None;
                match variant {
                    0 => {}
                    1 => changed = Some(0),
                    2 => changed = Some(n / 2),
                    3 => changed = Some(n - 1),
                    4 => idx.truncate(n - 1),
                    _ => idx.push(n),
                }
                let item = |k: usize, alt: bool| -> V {
                    match kind {
                        3 => pair(V::Sym(1000 + k as u64), V::Int(if alt { -1 } else { k as i32 })),
                        _ => V::Int(if alt { -1 } else { (k % 50) as i32 }),
                    }
                };
                let ch = |k: usize, alt: bool| if alt { 'z' } else { ['m', 'é', '漢', 'n'][k % 4] };
                let build = |idx: &[usize], changed: Option<usize>, split: bool| -> V {
                    match kind {
                        0 => V::Text(idx.iter().map(|k| ch(*k, changed == Some(*k))).collect()),
                        1 => V::Bytes(idx.iter().map(|k| if changed == Some(*k) { 255 } else { (*k % 200) as u8 }).collect()),
                        4 => V::SymList(idx.iter().map(|k| crate::model::value::SymPart::Sym(if changed == Some(*k) { 7 } else { 1000 + *k as u64 })).collect()),
                        _ => {
                            let items: Vec<V> = idx.iter().map(|k| item(*k, changed == Some(*k))).collect();
                            if split && items.len() >= 2 {
                                // kind 5: the same items as a concatenation of two lists
                                let (a, b) = items.split_at(items.len() / 3);
                                V::Concat(Box::new(V::List(a.to_vec())), Box::new(V::List(b.to_vec())))
                            } else {
                                V::List(items)
                            }
                        }
                    }
                };
                let all: Vec<usize> = (0..n).collect();
                let a = build(&all, None, false);
                let b = build(&idx, changed, kind == 5);
                ctx.class("size-sweep");
                self.judge_pair(&a, &b, ctx);
            }
            (1, Input::Tape(t)) => {
                let mut t = Tape::new(t);
                let a = tree(&mut t, 3);
                match t.choose(4) {
                    0 => {
                        let b = twin(&a, &mut t);
                        ctx.class("twin");
                        self.judge_pair(&a, &b, ctx);
                        // transitivity: a == b, b == c => a == c
                        let c = twin(&b, &mut t);
                        self.judge_pair(&a, &c, ctx);
                    }
                    1 => {
                        let b = mutant(&a, &mut t);
                        ctx.class("near-miss");
                        self.judge_pair(&a, &b, ctx);
                    }
                    2 => {
                        let b = mutant(&twin(&a, &mut t), &mut t);
                        ctx.class("near-miss-of-twin");
                        self.judge_pair(&a, &b, ctx);
                    }
                    _ => {
                        let b = tree(&mut t, 3);
                        ctx.class("independent");
                        self.judge_pair(&a, &b, ctx);
                    }
                }
            }
            _ => {}
        }
    }
}
