//! C09 — number arithmetic is exact or unit, never wrapped.

use crate::engine::core::*;
use crate::engine::tape::{Tape, fnv, mix};
use crate::model::data::*;
use garnish_lang_runtime::ops;
use garnish_lang_simple_data::SimpleNumber;
use garnish_lang_simple_data::SimpleNumber::{Float, Integer};
use garnish_lang_traits::{GarnishDataType, GarnishNumber};

pub struct C09Check;
pub static C09: C09Check = C09Check;

#[derive(Clone, Copy, PartialEq, Eq, Debug)]
pub enum Op {
    Add,
    Sub,
    Mul,
    Div,
    IDiv,
    Rem,
    Pow,
    And,
    Or,
    Xor,
    Shl,
    Shr,
    Abs,
    Neg,
    Not,
    Inc,
    Dec,
}

pub const BIN_OPS: [Op; 12] = [Op::Add, Op::Sub, Op::Mul, Op::Div, Op::IDiv, Op::Rem, Op::Pow, Op::And, Op::Or, Op::Xor, Op::Shl, Op::Shr];
pub const UN_OPS: [Op; 5] = [Op::Abs, Op::Neg, Op::Not, Op::Inc, Op::Dec];

impl Op {
    pub fn sym(self) -> &'static str {
        match self {
            Op::Add => "+",
            Op::Sub => "-",
            Op::Mul => "*",
            Op::Div => "/",
            Op::IDiv => "//",
            Op::Rem => "%",
            Op::Pow => "**",
            Op::And => "&",
            Op::Or => "|",
            Op::Xor => "^",
            Op::Shl => "<<",
            Op::Shr => ">>",
            Op::Abs => "++",
            Op::Neg => "--",
            Op::Not => "!",
            Op::Inc => "increment",
            Op::Dec => "decrement",
        }
    }
    fn is_bitwise(self) -> bool {
        matches!(self, Op::And | Op::Or | Op::Xor | Op::Shl | Op::Shr | Op::Not)
    }
}

/// The boundary lattice of the statement.
pub fn lattice() -> Vec<i32> {
    let mut v: Vec<i64> = vec![i32::MIN as i64, i32::MIN as i64 + 1, -1, 0, 1, i32::MAX as i64 - 1, i32::MAX as i64];
    for k in 1..=30 {
        let p = 1i64 << k;
        for d in [-1i64, 0, 1] {
            v.push(p + d);
            v.push(-p + d);
        }
    }
    v.retain(|x| *x >= i32::MIN as i64 && *x <= i32::MAX as i64);
    v.sort();
    v.dedup();
    v.into_iter().map(|x| x as i32).collect()
}

pub fn float_pool() -> Vec<f64> {
    vec![
        0.0, -0.0, 1.0, -1.0, 0.5, -0.5, 2.0, -2.0, 0.1, 3.75, -7.25, 1e-300, -1e-300, 5e-324, -5e-324, 2.2250738585072014e-308, 1e300, -1e300, f64::MAX, f64::MIN, 1e154, 1e155, 2147483647.0,
        2147483648.0, -2147483648.0, -2147483649.0, 4294967296.0, 1e20, -1e20, 0.3333333333333333, 8.0, -8.0, 1023.0, 1024.0, 31.0, 32.0, 1e10, 123456.789,
    ]
}

#[derive(Clone, Copy, Debug, PartialEq)]
pub enum Expect {
    /// exactly this integer
    Int(i32),
    /// exactly this float (bitwise, except any zero sign accepted for zero results of mixed ops? no: exact)
    Flt(f64),
    /// unit
    Unit,
    /// float `//`: Integer(t) when it fits, or Float(t); unit also accepted when t does not fit i32
    Trunc(f64),
}

fn to_f(n: SimpleNumber) -> f64 {
    match n {
        Integer(i) => i as f64,
        Float(f) => f,
    }
}

fn fin(f: f64) -> Expect {
    if f.is_finite() { Expect::Flt(f) } else { Expect::Unit }
}

fn fit(v: i128) -> Expect {
    if v >= i32::MIN as i128 && v <= i32::MAX as i128 { Expect::Int(v as i32) } else { Expect::Unit }
}

/// Reference semantics, written from the statement (wide integer arithmetic, IEEE-754 doubles).
pub fn reference(op: Op, a: SimpleNumber, b: SimpleNumber) -> Expect {
    match (a, b) {
        (Integer(x), Integer(y)) => {
            let (x1, y1) = (x as i128, y as i128);
            match op {
                Op::Add => fit(x1 + y1),
                Op::Sub => fit(x1 - y1),
                Op::Mul => fit(x1 * y1),
                Op::Div | Op::IDiv => {
                    if y == 0 {
                        Expect::Unit
                    } else {
                        fit(x1 / y1) // i128 division truncates toward zero
                    }
                }
                Op::Rem => {
                    if y == 0 {
                        Expect::Unit
                    } else if x == i32::MIN && y == -1 {
                        Expect::Unit // the quotient overflows: counts as overflow per the statement
                    } else {
                        fit(x1 % y1)
                    }
                }
                Op::Pow => {
                    if y < 0 {
                        Expect::Unit
                    } else if x == 0 {
                        Expect::Int(if y == 0 { 1 } else { 0 })
                    } else if x == 1 {
                        Expect::Int(1)
                    } else if x == -1 {
                        Expect::Int(if y % 2 == 0 { 1 } else { -1 })
                    } else {
                        // |x| >= 2: at most 32 multiplications before leaving the i32 range
                        let mut acc: i128 = 1;
                        let mut over = false;
                        for _ in 0..y {
                            acc *= x1;
                            if acc > i32::MAX as i128 || acc < i32::MIN as i128 {
                                over = true;
                                break;
                            }
                        }
                        if over { Expect::Unit } else { fit(acc) }
                    }
                }
                Op::And => Expect::Int(x & y),
                Op::Or => Expect::Int(x | y),
                Op::Xor => Expect::Int(x ^ y),
                Op::Shl => {
                    if (0..=31).contains(&y) {
                        Expect::Int(((x as u32) << (y as u32)) as i32)
                    } else {
                        Expect::Unit
                    }
                }
                Op::Shr => {
                    if (0..=31).contains(&y) {
                        Expect::Int(x >> y)
                    } else {
                        Expect::Unit
                    }
                }
                _ => unreachable!(),
            }
        }
        _ => {
            if op.is_bitwise() {
                return Expect::Unit;
            }
            let (x, y) = (to_f(a), to_f(b));
            match op {
                Op::Add => fin(x + y),
                Op::Sub => fin(x - y),
                Op::Mul => fin(x * y),
                Op::Div => {
                    if y == 0.0 {
                        Expect::Unit
                    } else {
                        fin(x / y)
                    }
                }
                Op::Rem => {
                    if y == 0.0 {
                        Expect::Unit
                    } else {
                        fin(x % y)
                    }
                }
                Op::IDiv => {
                    if y == 0.0 {
                        Expect::Unit
                    } else {
                        let q = x / y;
                        if q.is_finite() { Expect::Trunc(q.trunc()) } else { Expect::Unit }
                    }
                }
                Op::Pow => {
                    if y < 0.0 {
                        Expect::Unit
                    } else {
                        fin(x.powf(y))
                    }
                }
                _ => unreachable!(),
            }
        }
    }
}

pub fn reference_unary(op: Op, a: SimpleNumber) -> Expect {
    match a {
        Integer(x) => match op {
            Op::Abs => fit((x as i128).abs()),
            Op::Neg => fit(-(x as i128)),
            Op::Not => Expect::Int(!x),
            Op::Inc => fit(x as i128 + 1),
            Op::Dec => fit(x as i128 - 1),
            _ => unreachable!(),
        },
        Float(x) => match op {
            Op::Abs => fin(x.abs()),
            Op::Neg => fin(-x),
            Op::Not => Expect::Unit,
            Op::Inc => fin(x + 1.0),
            Op::Dec => fin(x - 1.0),
            _ => unreachable!(),
        },
    }
}

pub fn agrees(exp: Expect, got: Option<SimpleNumber>) -> bool {
    match (exp, got) {
        (Expect::Unit, None) => true,
        (Expect::Int(e), Some(Integer(g))) => e == g,
        (Expect::Flt(e), Some(Float(g))) => e.to_bits() == g.to_bits() || (e == 0.0 && g == 0.0),
        (Expect::Trunc(t), Some(Integer(g))) => t >= i32::MIN as f64 && t <= i32::MAX as f64 && g as f64 == t,
        (Expect::Trunc(t), Some(Float(g))) => g == t,
        (Expect::Trunc(t), None) => !(t >= i32::MIN as f64 && t <= i32::MAX as f64),
        _ => false,
    }
}

fn method(op: Op, a: SimpleNumber, b: SimpleNumber) -> Option<SimpleNumber> {
    match op {
        Op::Add => a.plus(b),
        Op::Sub => a.subtract(b),
        Op::Mul => a.multiply(b),
        Op::Div => a.divide(b),
        Op::IDiv => a.integer_divide(b),
        Op::Rem => a.remainder(b),
        Op::Pow => a.power(b),
        Op::And => a.bitwise_and(b),
        Op::Or => a.bitwise_or(b),
        Op::Xor => a.bitwise_xor(b),
        Op::Shl => a.bitwise_shift_left(b),
        Op::Shr => a.bitwise_shift_right(b),
        _ => unreachable!(),
    }
}

fn method_unary(op: Op, a: SimpleNumber) -> Option<SimpleNumber> {
    match op {
        Op::Abs => a.absolute_value(),
        Op::Neg => a.opposite(),
        Op::Not => a.bitwise_not(),
        Op::Inc => a.increment(),
        Op::Dec => a.decrement(),
        _ => unreachable!(),
    }
}

/// run the instruction on a data object; Ok(None) = unit result
fn instruction<D: GD>(d: &mut D, op: Op, a: SimpleNumber, b: Option<SimpleNumber>) -> Result<Option<SimpleNumber>, String> {
    let base = d.get_register_len();
    let aa = d.add_number(a).map_err(|e| format!("add_number: {}", e))?;
    d.push_register(aa).map_err(|e| e.to_string())?;
    if let Some(b) = b {
        let ba = d.add_number(b).map_err(|e| format!("add_number: {}", e))?;
        d.push_register(ba).map_err(|e| e.to_string())?;
    }
    let r = match op {
        Op::Add => ops::add(d),
        Op::Sub => ops::subtract(d),
        Op::Mul => ops::multiply(d),
        Op::Div => ops::divide(d),
        Op::IDiv => ops::integer_divide(d),
        Op::Rem => ops::remainder(d),
        Op::Pow => ops::power(d),
        Op::And => ops::bitwise_and(d),
        Op::Or => ops::bitwise_or(d),
        Op::Xor => ops::bitwise_xor(d),
        Op::Shl => ops::bitwise_left_shift(d),
        Op::Shr => ops::bitwise_right_shift(d),
        Op::Abs => ops::absolute_value(d),
        Op::Neg => ops::opposite(d),
        Op::Not => ops::bitwise_not(d),
        Op::Inc | Op::Dec => return Err("no instruction".into()),
    };
    r.map_err(|e| format!("instruction returned Err: {}", e))?;
    if d.get_register_len() != base + 1 {
        return Err(format!("register depth {} after the instruction, expected {}", d.get_register_len(), base + 1));
    }
    let res = d.pop_register().map_err(|e| e.to_string())?.ok_or("no result register")?;
    match d.get_data_type(res).map_err(|e| e.to_string())? {
        GarnishDataType::Unit => Ok(None),
        GarnishDataType::Number => Ok(Some(d.get_number(res).map_err(|e| e.to_string())?)),
        t => Err(format!("result of type {:?}", t)),
    }
}

fn show(n: SimpleNumber) -> String {
    match n {
        Integer(i) => format!("{}", i),
        Float(f) => format!("{:?}f", f),
    }
}

fn show_got(g: &Option<SimpleNumber>) -> String {
    match g {
        None => "unit".to_string(),
        Some(n) => show(*n),
    }
}

fn operand_class(n: SimpleNumber) -> &'static str {
    match n {
        Integer(_) => "int",
        Float(_) => "float",
    }
}

/// signature = root cause first: what went wrong, operator, operand kinds
fn sig_for(op: Op, a: SimpleNumber, b: Option<SimpleNumber>, exp: Expect, got: &Result<Option<SimpleNumber>, String>, level: &str) -> String {
    let kinds = match b {
        Some(b) => format!("{}:{}", operand_class(a), operand_class(b)),
        None => operand_class(a).to_string(),
    };
    let both_int = matches!((a, b), (Integer(_), Some(Integer(_))) | (Integer(_), None));
    let what = match got {
        Err(e) if e.starts_with("panic") => e.clone(),
        Err(_) => "error".to_string(),
        Ok(g) => match (exp, g) {
            (_, Some(Integer(v))) if op == Op::IDiv && !both_int && (*v == i32::MAX || *v == i32::MIN) => "float-idiv-saturates".to_string(),
            (Expect::Unit, Some(Float(f))) if f.is_nan() => "nan-instead-of-unit".to_string(),
            (Expect::Unit, Some(_)) => "number-instead-of-unit".to_string(),
            (_, None) => "unit-instead-of-number".to_string(),
            (Expect::Trunc(_), Some(_)) => "wrong-truncated-quotient".to_string(),
            (_, Some(_)) => "wrong-number".to_string(),
        },
    };
    format!("{}{}:{}:{}", level, what, op.sym(), kinds)
}

impl C09Check {
    fn check_binary(&self, ctx: &mut CaseCtx, op: Op, a: SimpleNumber, b: SimpleNumber) {
        let exp = reference(op, a, b);
        let desc = || format!("{} {} {}", show(a), op.sym(), show(b));
        ctx.render(desc);
        // non-trivial: unit expected, mixed operands, or exact result within 2 of an i32 boundary
        let near = match exp {
            Expect::Int(v) => (v as i64 - i32::MIN as i64) <= 2 || (i32::MAX as i64 - v as i64) <= 2,
            _ => false,
        };
        let mixed = operand_class(a) != operand_class(b);
        if exp == Expect::Unit || near || mixed {
            ctx.nontrivial(mix(mix(fnv(op.sym().as_bytes()), num_bits(a)), num_bits(b)));
        }
        ctx.class(match exp {
            Expect::Unit => "expect-unit",
            Expect::Int(_) => "expect-int",
            Expect::Flt(_) => "expect-float",
            Expect::Trunc(_) => "expect-truncated-quotient",
        });
        // 1. the GarnishNumber method
        let got = guard("op", || method(op, a, b)).map_err(|p| format!("panic@{}", p.loc));
        if !matches!(&got, Ok(g) if agrees(exp, *g)) {
            ctx.fail(sig_for(op, a, Some(b), exp, &got, ""), format!("{}: expected {:?}, got {}", desc(), exp, got.as_ref().map(show_got).unwrap_or_else(|e| e.clone())));
            return; // the instructions call the same method: same root cause
        }
        ctx.sub_evals += 2;
        // 2. the instruction on both data implementations
        let gs = guard("op", || instruction(&mut new_simple(), op, a, Some(b))).unwrap_or_else(|p| Err(format!("panic@{}", p.loc)));
        if !matches!(&gs, Ok(g) if agrees(exp, *g)) {
            ctx.fail(sig_for(op, a, Some(b), exp, &gs, "instruction-only:"), format!("Simple {}: expected {:?}, got {}", desc(), exp, gs.as_ref().map(show_got).unwrap_or_else(|e| e.clone())));
        }
        let gb = guard("op", || instruction(&mut new_basic(), op, a, Some(b))).unwrap_or_else(|p| Err(format!("panic@{}", p.loc)));
        if !matches!(&gb, Ok(g) if agrees(exp, *g)) {
            ctx.fail(sig_for(op, a, Some(b), exp, &gb, "instruction-only:"), format!("Basic {}: expected {:?}, got {}", desc(), exp, gb.as_ref().map(show_got).unwrap_or_else(|e| e.clone())));
        }
    }

    fn check_unary(&self, ctx: &mut CaseCtx, op: Op, a: SimpleNumber) {
        let exp = reference_unary(op, a);
        let desc = || format!("{} {}", op.sym(), show(a));
        ctx.render(desc);
        let near = match exp {
            Expect::Int(v) => (v as i64 - i32::MIN as i64) <= 2 || (i32::MAX as i64 - v as i64) <= 2,
            _ => false,
        };
        if exp == Expect::Unit || near {
            ctx.nontrivial(mix(fnv(op.sym().as_bytes()), num_bits(a)));
        }
        ctx.class("unary");
        let got = guard("op", || method_unary(op, a)).map_err(|p| format!("panic@{}", p.loc));
        if !matches!(&got, Ok(g) if agrees(exp, *g)) {
            ctx.fail(sig_for(op, a, None, exp, &got, ""), format!("{}: expected {:?}, got {}", desc(), exp, got.as_ref().map(show_got).unwrap_or_else(|e| e.clone())));
            return;
        }
        if !matches!(op, Op::Inc | Op::Dec) {
            ctx.sub_evals += 2;
            for imp in Impl::BOTH {
                let g = guard("op", || match imp {
                    Impl::Simple => instruction(&mut new_simple(), op, a, None),
                    Impl::Basic => instruction(&mut new_basic(), op, a, None),
                })
                .unwrap_or_else(|p| Err(format!("panic@{}", p.loc)));
                if !matches!(&g, Ok(g) if agrees(exp, *g)) {
                    ctx.fail(sig_for(op, a, None, exp, &g, "instruction-only:"), format!("{} {}: expected {:?}, got {}", imp.name(), desc(), exp, g.as_ref().map(show_got).unwrap_or_else(|e| e.clone())));
                }
            }
        }
    }
}

fn num_bits(n: SimpleNumber) -> u64 {
    match n {
        Integer(i) => i as u32 as u64,
        Float(f) => f.to_bits() ^ 0xF000_0000_0000_0000,
    }
}

fn random_number(t: &mut Tape) -> SimpleNumber {
    match t.choose(8) {
        0..=3 => Integer(t.u32() as i32),
        4 => Integer(*t.pick(&lattice_static())),
        5 => Float(*t.pick(&float_pool())),
        6 => {
            // integer-valued float near i32 range or small
            let i = t.u32() as i32;
            Float(i as f64 + [0.0, 0.5, -0.5, 0.25][t.choose(4)])
        }
        _ => {
            // arbitrary finite double from bits
            let f = f64::from_bits(t.u64());
            if f.is_finite() { Float(f) } else { Float(1.5) }
        }
    }
}

fn lattice_static() -> Vec<i32> {
    lattice()
}

impl Check for C09Check {
    fn id(&self) -> &'static str {
        "C09"
    }
    fn rule(&self) -> String {
        "Phase lattice-binary: every ordered pair of the boundary lattice (MIN, MIN+1, ±2^k and ±2^k±1 for k=1..30, -1, 0, 1, MAX-1, MAX) x the 12 binary operators, exhaustively; \
         lattice-unary: lattice and float pool x 5 unary ops; float-binary: every ordered pair of (float pool ∪ 24 integers) with at least one float x 12 operators; random: i32/f64 pairs decoded from a proptest-generated tape. \
         Each case compares the GarnishNumber method on SimpleNumber and the instruction executed on SimpleGarnishData and BasicGarnishData with a reference in i128 / IEEE-754 f64. \
         Non-trivial = the expected answer is unit, or operands are mixed int/float, or the exact result lies within 2 of an i32 boundary; distinct = distinct (operator, operand bits)."
            .to_string()
    }
    fn assumptions(&self) -> Vec<String> {
        vec![
            "operands are finite numbers (NaN and infinities cannot be written as literals of finite spelling; 1e999 is covered by C14)".into(),
            "float results follow IEEE-754 double arithmetic of the promoted operands; `**` on floats is compared with the platform powf".into(),
            "float `//` may yield the truncated quotient as integer or float, and unit when it does not fit 32 bits".into(),
            "shift results are judged on two's-complement bit patterns (1 << 31 = MIN is accepted)".into(),
        ]
    }
    fn phases(&self, tier: Tier) -> Vec<Phase> {
        let n = lattice().len() as u64;
        let mixed = (float_pool().len() + 24) as u64;
        vec![
            Phase::exhaustive("lattice-binary", n * n * BIN_OPS.len() as u64).with_chunk(4096),
            Phase::exhaustive("lattice-unary", (n + float_pool().len() as u64) * UN_OPS.len() as u64),
            Phase::exhaustive("float-binary", mixed * mixed * BIN_OPS.len() as u64).with_chunk(2048),
            Phase::random("random", tier.pick(3_000_000, 60_000_000), 24).with_min_tape(24).with_chunk(4096),
        ]
    }
    fn run(&self, _tier: Tier, phase: usize, input: &Input, ctx: &mut CaseCtx) {
        match (phase, input) {
            (0, Input::Index(i)) => {
                let l = lattice();
                let n = l.len() as u64;
                let op = BIN_OPS[(i % 12) as usize];
                let r = i / 12;
                let a = l[(r / n) as usize];
                let b = l[(r % n) as usize];
                ctx.class("int-int");
                self.check_binary(ctx, op, Integer(a), Integer(b));
            }
            (1, Input::Index(i)) => {
                let l = lattice();
                let fp = float_pool();
                let op = UN_OPS[(i % 5) as usize];
                let r = (i / 5) as usize;
                let a = if r < l.len() { Integer(l[r]) } else { Float(fp[r - l.len()]) };
                self.check_unary(ctx, op, a);
            }
            (2, Input::Index(i)) => {
                let mut pool: Vec<SimpleNumber> = float_pool().into_iter().map(Float).collect();
                for v in [0, 1, -1, 2, -2, 3, 7, 10, 31, 32, 33, 64, 1000, -1000, 65536, i32::MAX, i32::MIN, i32::MAX - 1, i32::MIN + 1, 46341, -46341, 1 << 30, 5, -5] {
                    pool.push(Integer(v));
                }
                let n = pool.len() as u64;
                let op = BIN_OPS[(i % 12) as usize];
                let r = i / 12;
                let a = pool[(r / n) as usize];
                let b = pool[(r % n) as usize];
                if matches!((a, b), (Integer(_), Integer(_))) {
                    ctx.class("skipped-int-int-in-float-phase");
                    return;
                }
                ctx.class("float-or-mixed");
                self.check_binary(ctx, op, a, b);
            }
            (3, Input::Tape(t)) => {
                let mut t = Tape::new(t);
                let a = random_number(&mut t);
                let b = random_number(&mut t);
                if t.choose(6) == 0 {
                    let op = UN_OPS[t.choose(5)];
                    self.check_unary(ctx, op, a);
                } else {
                    let op = BIN_OPS[t.choose(12)];
                    // bias shift counts and exponents into the interesting range half of the time
                    let b = if matches!(op, Op::Shl | Op::Shr | Op::Pow) && t.flag() { Integer(t.choose(70) as i32 - 3) } else { b };
                    ctx.class("random");
                    self.check_binary(ctx, op, a, b);
                }
            }
            _ => {}
        }
    }
    fn render(&self, _tier: Tier, phase: usize, input: &Input) -> String {
        format!("C09 phase {} input {:?}", phase, input)
    }
}
