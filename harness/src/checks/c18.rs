//! C18 — layout that carries no meaning does not change the result.

use crate::checks::c01::{Got, front_end, inputs, run_parsed};
use crate::engine::core::*;
use crate::engine::tape::{Tape, fnv};
use crate::model::astgen;
use crate::model::data::*;
use crate::model::optable::Fix;
use crate::model::refparse::{Layout, Tok, render};
use crate::model::sx::{self, Sx};
use crate::model::value::{V, same};

pub struct C18Check;
pub static C18: C18Check = C18Check;

/// decorations that may be put into a gap between two tokens
pub const DECORATIONS: &[(&str, &str)] = &[
    ("no-space", ""),
    ("one-space", " "),
    ("wide-space", "   "),
    ("tab", "\t"),
    ("space-tab-space", " \t "),
    ("line-break", "\n"),
    ("annotation", " @note "),
    ("comment-line", " @@ a comment\n"),
    // an annotation glued to a neighbour (applicable wherever the lexer still gives the same tokens)
    ("annotation-glued-to-next", " @note"),
    ("annotation-glued-to-previous", "@note "),
    // inside the gap that is a list space or a blank line: before the operator's own white space / after it
    ("annotation-before-the-space", " @note"),
    ("annotation-after-the-space", "@note "),
    ("annotation-after-the-space-glued-to-next", "@note"),
];

/// Decided from the language's token rules alone, never by asking the lexer under test: does this decoration certainly
/// leave the neighbouring tokens as they are? (An inline annotation is `@` + letters, digits and `_`; a line annotation
/// runs to the end of its line; blanks and tabs between two tokens that already had a blank between them change nothing.)
/// `false` means "not sure": then the old rule applies and the real lexer's token list decides whether the rewrite is judged.
fn certainly_keeps_tokens(name: &str, next_text: &str) -> bool {
    let next_continues_a_name = next_text.chars().next().map(|c| c.is_alphanumeric() || c == '_' || c == '@').unwrap_or(true);
    match name {
        "wide-space" | "tab" | "space-tab-space" | "annotation" | "comment-line" | "annotation-before-the-space" | "annotation-after-the-space" => true,
        "annotation-glued-to-next" | "annotation-after-the-space-glued-to-next" => !next_continues_a_name,
        _ => false,
    }
}

fn tok_class(t: &Tok) -> &'static str {
    match t {
        Tok::Atom("Identifier", _) => "identifier",
        Tok::Atom(_, _) => "value",
        Tok::Op(o) => match o.fix {
            crate::model::optable::Fix::Prefix => "prefix",
            crate::model::optable::Fix::Suffix => "suffix",
            _ => match o.text {
                " " => "list-space",
                "\n\n" => "blank-line",
                ";" => "semicolon",
                "," => "comma",
                _ => "binary",
            },
        },
        Tok::Open(c) => match c {
            '(' => "(",
            '{' => "{",
            _ => "[",
        },
        Tok::Close(c) => match c {
            ')' => ")",
            '}' => "}",
            _ => "]",
        },
    }
}

/// render with a spaced base layout, except gap `at` (between token at-1 and at) which gets `deco`
fn render_with(toks: &[Tok], at: usize, deco: &str, trailing: &str) -> String {
    let mut s = String::new();
    for (i, t) in toks.iter().enumerate() {
        let is_ws_op = matches!(t, Tok::Op(o) if o.text == " " || o.text == "\n\n");
        if i > 0 {
            let prev_ws = matches!(&toks[i - 1], Tok::Op(o) if o.text == " " || o.text == "\n\n");
            if i == at {
                s.push_str(deco);
            } else if !is_ws_op && !prev_ws {
                s.push(' ');
            }
        }
        s.push_str(&t.text());
    }
    s.push_str(trailing);
    s
}

/// tree modulo trivia: Group nodes and side-effect blocks removed
pub fn normalize(n: &Sx) -> Sx {
    match n {
        Sx::Node(d, None, Some(r)) if d == "Group" => normalize(r),
        Sx::ValNode(d, t, _, _) => Sx::Leaf(d.clone(), t.clone()),
        Sx::Node(d, l, r) => Sx::Node(d.clone(), l.as_ref().map(|x| Box::new(normalize(x))), r.as_ref().map(|x| Box::new(normalize(x)))),
        other => other.clone(),
    }
}

struct Base {
    tree: Sx,
    values: Vec<(Impl, usize, Option<V>)>,
    /// some run was cut at the step bound: the program does not terminate (e.g. `^~ $ . :k`)
    runaway: bool,
}

fn observe(text: &str, toks: Option<&[Tok]>, input_ids: &[usize]) -> Result<Base, &'static str> {
    let parsed = match front_end(text, toks) {
        Ok(p) => p,
        Err(Got::Rejected("layout-merge", _)) => return Err("layout-merge"),
        Err(Got::Panic(..)) => return Err("panic"),
        Err(_) => return Err("rejected"),
    };
    let tree = normalize(&sx::from_parse(parsed.get_root(), parsed.get_nodes()));
    let all = inputs();
    let mut values = vec![];
    let mut runaway = false;
    for &ii in input_ids {
        for imp in Impl::BOTH {
            let got = match imp {
                Impl::Simple => run_parsed(&mut new_simple(), &parsed, &all[ii], 1500),
                Impl::Basic => run_parsed(&mut new_basic(), &parsed, &all[ii], 1500),
            };
            if matches!(got, Got::StepLimit) {
                runaway = true;
            }
            let v = match got {
                Got::Value(v) => Some(v),
                _ => None,
            };
            values.push((imp, ii, v));
        }
    }
    Ok(Base { tree, values, runaway })
}

fn compare(kind: &'static str, ctxkey: &str, base_text: &str, base: &Base, var_text: &str, var: Result<Base, &'static str>, ctx: &mut CaseCtx) {
    match var {
        Err("layout-merge") => ctx.class("rewrite-not-applicable-tokens-merge"),
        Err(why) => {
            ctx.fail(format!("layout:{}:{}:variant-{}", kind, ctxkey, why), format!("{:?} is accepted, its rewrite {:?} is {}", base_text, var_text, why));
        }
        Ok(v) => {
            // the rewrite was applicable and is judged: one histogram class per rewrite kind
            ctx.class(kind);
            if v.tree != base.tree {
                ctx.fail(format!("layout:{}:{}:tree-differs", kind, ctxkey), format!("{:?} parses as {} but its rewrite {:?} parses as {}", base_text, base.tree, var_text, v.tree));
                return;
            }
            for ((imp, ii, a), (_, _, b)) in base.values.iter().zip(v.values.iter()) {
                let same_v = match (a, b) {
                    (Some(x), Some(y)) => same(x, y),
                    (None, None) => true,
                    _ => false,
                };
                if !same_v {
                    ctx.fail(
                        format!("layout:{}:{}:value-differs", kind, ctxkey),
                        format!("{:?} gives {} but its rewrite {:?} gives {} (input #{} on {})", base_text, a.as_ref().map(|x| x.to_string()).unwrap_or("no value".into()), var_text, b.as_ref().map(|x| x.to_string()).unwrap_or("no value".into()), ii, imp.name()),
                    );
                    return;
                }
            }
        }
    }
}

/// the program pool of C20 (conditionals, calls, reapply loops, side effects, look-ups) and the short programs of the
/// repetition corpus (operator chains, conditional chains, nesting)
pub fn corpus_programs() -> &'static [String] {
    static CORPUS: std::sync::OnceLock<Vec<String>> = std::sync::OnceLock::new();
    CORPUS.get_or_init(|| {
        let mut v: Vec<String> = crate::checks::c20::POOL.iter().map(|s| s.to_string()).collect();
        v.extend(crate::model::pipeline::repetition_programs().into_iter().filter(|p| p.split_whitespace().count() <= 24));
        v.extend(
            [
                "{ $ < 3 ?> ^~ $ + 1 |> $ } <~ 0",
                "{ $ < 2 ?> ( $ < 3 ?> ^~ $ + 1 |> $ * 10 ) |> $ } <~ 0",
                "{ $ < 3 && ( $ < 3 ?> ^~ $ + 1 ) } <~ 0",
                "{ $ > 2 || ^~ $ + 1 } <~ 0",
                "{ { $ + 1 } <~ $ ; $ < 3 ?> ^~ $ |> $ } <~ 0",
                "{ $ < 3 ?> ^~ $ + 1 |> $ } <~ 0 ; { $ < 2 ?> ^~ $ + 1 |> $ } <~ 0",
            ]
            .iter()
            .map(|s| s.to_string()),
        );
        v
    })
}

impl C18Check {
    /// apply every single rewrite at every position (or a tape-chosen subset) to one program
    fn judge(&self, ast: &Sx, input_ids: &[usize], pick: Option<&mut Tape>, ctx: &mut CaseCtx) {
        let (toks, _reference, _) = match astgen::printable(ast) {
            Some(x) => x,
            None => {
                ctx.class("not-printable");
                return;
            }
        };
        let base_text = render(&toks, Layout::Spaced);
        ctx.render(|| format!("{:?}", base_text));
        let base = match observe(&base_text, Some(&toks), input_ids) {
            Ok(b) => b,
            Err(_) => {
                ctx.class("base-not-accepted");
                return;
            }
        };
        ctx.class("base-accepted");
        // a program that does not terminate has no value to compare, and hundreds of rewrites each run to the step bound cost
        // minutes: its rewrites are judged on the parse tree alone
        let input_ids: &[usize] = if base.runaway {
            ctx.class("base-does-not-terminate-trees-only");
            &[]
        } else {
            input_ids
        };
        let mut pick = pick;
        let mut take = |n: u32| -> bool {
            match pick.as_mut() {
                Some(t) => t.chance(n),
                None => true,
            }
        };
        // 1. gap decorations
        for at in 1..toks.len() {
            let prev_ws = matches!(&toks[at - 1], Tok::Op(o) if o.text == " " || o.text == "\n\n");
            let this_ws = matches!(&toks[at], Tok::Op(o) if o.text == " " || o.text == "\n\n");
            for (name, deco) in DECORATIONS {
                // next to the list-space / blank-line operator the gap is part of that operator: only widening applies
                let for_ws_gap = matches!(*name, "wide-space" | "tab" | "space-tab-space") || (this_ws && *name == "annotation-before-the-space") || (prev_ws && !this_ws && name.starts_with("annotation-after-the-space"));
                if (prev_ws || this_ws) && !for_ws_gap {
                    continue;
                }
                if !(prev_ws || this_ws) && name.contains("-the-space") {
                    continue;
                }
                if !take(40) {
                    continue;
                }
                // a line break must not complete a blank line with a neighbouring one
                let deco_text: String = if prev_ws || this_ws { String::new() } else { deco.to_string() };
                let var_text = if prev_ws || this_ws {
                    // widen: put extra blanks before the operator token's own white space
                    let mut s = render_with(&toks, usize::MAX, "", "");
                    let _ = &mut s;
                    let widened: Vec<Tok> = toks.clone();
                    let mut out = String::new();
                    for (i, t) in widened.iter().enumerate() {
                        let is_ws_op = matches!(t, Tok::Op(o) if o.text == " " || o.text == "\n\n");
                        if i > 0 {
                            let p_ws = matches!(&widened[i - 1], Tok::Op(o) if o.text == " " || o.text == "\n\n");
                            if i == at && this_ws {
                                out.push_str(deco);
                            } else if !is_ws_op && !p_ws {
                                out.push(' ');
                            }
                        }
                        out.push_str(&t.text());
                        if i + 1 == at && prev_ws && !this_ws {
                            out.push_str(deco);
                        }
                    }
                    out
                } else {
                    render_with(&toks, at, &deco_text, "")
                };
                if var_text == base_text {
                    continue;
                }
                ctx.sub_evals += 1;
                let key = format!("{}|{}", tok_class(&toks[at - 1]), tok_class(&toks[at]));
                if tok_class(&toks[at - 1]) != tok_class(&toks[at]) {
                    ctx.nontrivial(fnv(format!("{}#{}#{}", base_text, at, name).as_bytes()));
                }
                let var = observe(&var_text, Some(&toks), input_ids);
                if matches!(var, Err("layout-merge")) && certainly_keeps_tokens(name, &toks[at].text()) {
                    // the token rules say the neighbours are untouched, the lexer returned other tokens
                    ctx.fail(format!("layout:{}:{}:tokens-differ", name, key), format!("{:?} is accepted, in its rewrite {:?} the lexer no longer returns the same significant tokens", base_text, var_text));
                    continue;
                }
                compare(name, &key, &base_text, &base, &var_text, var, ctx);
            }
        }
        // 1a. two layout rewrites at once: a line break in one gap and trailing blanks before a line break in a later gap
        // (what the lexer remembers from the first must not change how it reads the second), on programs of up to 14 tokens
        if toks.len() <= 14 {
            let plain_gap = |at: usize| {
                let p = matches!(&toks[at - 1], Tok::Op(o) if o.text == " " || o.text == "\n\n");
                let t = matches!(&toks[at], Tok::Op(o) if o.text == " " || o.text == "\n\n");
                !p && !t
            };
            for first in 1..toks.len() {
                for second in first + 1..toks.len() {
                    if !plain_gap(first) || !plain_gap(second) || !take(60) {
                        continue;
                    }
                    for (name, d1, d2) in [("line-break-then-trailing-blanks", "\n", " \n"), ("line-break-then-trailing-tab", "\n", "\t\n"), ("trailing-blanks-then-line-break", "  \n", "\n")] {
                        let mut var_text = String::new();
                        for (i, t) in toks.iter().enumerate() {
                            let is_ws_op = matches!(t, Tok::Op(o) if o.text == " " || o.text == "\n\n");
                            if i > 0 {
                                let prev_ws = matches!(&toks[i - 1], Tok::Op(o) if o.text == " " || o.text == "\n\n");
                                if i == first {
                                    var_text.push_str(d1);
                                } else if i == second {
                                    var_text.push_str(d2);
                                } else if !is_ws_op && !prev_ws {
                                    var_text.push(' ');
                                }
                            }
                            var_text.push_str(&t.text());
                        }
                        ctx.sub_evals += 1;
                        let var = observe(&var_text, Some(&toks), input_ids);
                        if matches!(var, Err("layout-merge")) {
                            // line breaks and blanks between tokens that a blank already separated: the token rules keep every token
                            ctx.fail(format!("layout:{}:tokens-differ", name), format!("{:?} is accepted, in its rewrite {:?} the lexer no longer returns the same significant tokens", base_text, var_text));
                            continue;
                        }
                        compare(name, "two-gaps", &base_text, &base, &var_text, var, ctx);
                    }
                }
            }
        }
        // 1b. blanks and tabs on the blank line itself
        for at in 0..toks.len() {
            if !matches!(&toks[at], Tok::Op(o) if o.text == "\n\n") {
                continue;
            }
            for (name, filled) in [("blank-line-holding-a-space", "\n \n"), ("blank-line-holding-a-tab", "\n\t\n"), ("blank-line-holding-tab-and-spaces", "\n\t  \n"), ("blank-line-after-trailing-tab", "\t\n\n")] {
                if !take(120) {
                    continue;
                }
                let mut out = String::new();
                for (i, t) in toks.iter().enumerate() {
                    let is_ws_op = matches!(t, Tok::Op(o) if o.text == " " || o.text == "\n\n");
                    if i > 0 {
                        let p_ws = matches!(&toks[i - 1], Tok::Op(o) if o.text == " " || o.text == "\n\n");
                        if !is_ws_op && !p_ws {
                            out.push(' ');
                        }
                    }
                    if i == at {
                        out.push_str(filled);
                    } else {
                        out.push_str(&t.text());
                    }
                }
                ctx.sub_evals += 1;
                ctx.nontrivial(fnv(format!("{}#{}#{}", base_text, at, name).as_bytes()));
                // no token-identity precondition here: that a blank line stays a separator whatever blanks it holds is the claim itself
                let var = observe(&out, None, input_ids);
                compare(name, "blank-line", &base_text, &base, &out, var, ctx);
            }
        }
        // 2. trailing white space / comment at the end and leading white space
        for (name, lead, trail) in [("trailing-spaces", "", "  "), ("trailing-tab-newline", "", "\t\n"), ("trailing-annotation", "", " @done"), ("leading-spaces", "  ", ""), ("leading-comment-line", "@@ header\n", "")] {
            if !take(60) {
                continue;
            }
            let var_text = format!("{}{}{}", lead, base_text, trail);
            ctx.sub_evals += 1;
            let var = observe(&var_text, Some(&toks), input_ids);
            compare(name, "edge", &base_text, &base, &var_text, var, ctx);
        }
        // 3. parentheses around a complete operand, 4. a side-effect block with a constant body after a value
        let mut positions = vec![];
        collect_positions(ast, &mut vec![], &mut positions);
        for path in positions {
            for kind in [
                "parenthesise-operand",
                "add-constant-side-effect",
                "add-side-effect-before",
                "add-side-effect-holding-a-block",
                "add-side-effect-before-holding-a-block",
                "add-side-effect-holding-a-list",
                "add-side-effect-holding-a-grouped-product",
                "add-side-effect-holding-a-negated-product",
                "add-side-effect-before-holding-a-grouped-product",
            ] {
                if !take(50) {
                    continue;
                }
                let rewritten = match rewrite_at(ast, &path, kind) {
                    Some(r) => r,
                    None => continue,
                };
                let (vtoks, _, _) = match astgen::printable_keep_groups(&rewritten) {
                    Some(x) => x,
                    None => continue,
                };
                let var_text = render(&vtoks, Layout::Spaced);
                if var_text == base_text {
                    continue;
                }
                ctx.sub_evals += 1;
                let var = observe(&var_text, Some(&vtoks), input_ids);
                let target = node_at(ast, &path).map(|n| def_of(n)).unwrap_or_default();
                compare(kind, &target, &base_text, &base, &var_text, var, ctx);
                if kind == "parenthesise-operand" {
                    continue;
                }
                // 4a. the added block glued to what it stands next to (`]` always ends a token, `[` always starts one, so
                // the tokens are certainly the same), 4b. a second block without effect directly in front of the added one
                let mut glued = 0;
                for at in 1..vtoks.len() {
                    // the gap after a block is certainly no list space only where the block cannot belong to a value in front
                    // of it: its `[` opens the program or follows an opening bracket or a prefix / binary operator that is
                    // not a separator (after `1 ;` inside a group the block is the 1's, and the blank after `]` is the list space)
                    let block_cannot_look_back = || {
                        let mut depth = 0i32;
                        let mut j = at - 1;
                        loop {
                            match &vtoks[j] {
                                Tok::Close(']') => depth += 1,
                                Tok::Open('[') => {
                                    depth -= 1;
                                    if depth == 0 {
                                        break;
                                    }
                                }
                                _ => {}
                            }
                            if j == 0 {
                                return false;
                            }
                            j -= 1;
                        }
                        j == 0
                            || match &vtoks[j - 1] {
                                Tok::Open(c) => *c != '[',
                                Tok::Op(o) => !matches!(o.fix, Fix::Suffix) && !matches!(o.def, "List" | "CommaList" | "Subexpression" | "ExpressionSeparator"),
                                _ => false,
                            }
                    };
                    let after_block = matches!(&vtoks[at - 1], Tok::Close(']')) && matches!(&vtoks[at], Tok::Atom(..) | Tok::Open(_)) && block_cannot_look_back();
                    let before_block = matches!(&vtoks[at], Tok::Open('[')) && matches!(&vtoks[at - 1], Tok::Atom(..));
                    if !(after_block || before_block) || glued >= 4 {
                        continue;
                    }
                    glued += 1;
                    let text = render_with(&vtoks, at, "", "");
                    ctx.sub_evals += 1;
                    let var = observe(&text, Some(&vtoks), input_ids);
                    if matches!(var, Err("layout-merge")) {
                        ctx.fail(
                            format!("layout:side-effect-block-glued-to-its-neighbour:{}:tokens-differ", target),
                            format!("{:?} is accepted, in its rewrite {:?} (a block glued to its neighbour) the lexer no longer returns the same significant tokens", base_text, text),
                        );
                        continue;
                    }
                    compare("side-effect-block-glued-to-its-neighbour", &target, &base_text, &base, &text, var, ctx);
                }
                if kind == "add-side-effect-before" {
                    let found = (0..vtoks.len().saturating_sub(3)).find(|&i| {
                        matches!(&vtoks[i], Tok::Open('[')) && matches!(&vtoks[i + 1], Tok::Atom("Number", t) if t == "1") && matches!(&vtoks[i + 2], Tok::Close(']')) && matches!(&vtoks[i + 3], Tok::Atom(..))
                    });
                    if let Some(i) = found {
                        let mut two: Vec<Tok> = vtoks[..i].to_vec();
                        two.extend([Tok::Open('['), Tok::Atom("Number", "7".to_string()), Tok::Close(']')]);
                        two.extend_from_slice(&vtoks[i..]);
                        for text in [render(&two, Layout::Spaced), render_with(&two, i + 3, "", "")] {
                            ctx.sub_evals += 1;
                            let var = observe(&text, Some(&two), input_ids);
                            compare("add-two-side-effects-before", &target, &base_text, &base, &text, var, ctx);
                        }
                    }
                }
            }
        }
    }
}

fn def_of(n: &Sx) -> String {
    match n {
        Sx::Leaf(d, _) | Sx::Node(d, _, _) | Sx::ValNode(d, _, _, _) => d.clone(),
        _ => "?".into(),
    }
}

fn collect_positions(n: &Sx, path: &mut Vec<u8>, out: &mut Vec<Vec<u8>>) {
    out.push(path.clone());
    if let Sx::Node(d, l, r) = n {
        if d == "SideEffect" {
            return;
        }
        if let Some(l) = l {
            path.push(0);
            collect_positions(l, path, out);
            path.pop();
        }
        if let Some(r) = r {
            path.push(1);
            collect_positions(r, path, out);
            path.pop();
        }
    }
}

fn node_at<'a>(n: &'a Sx, path: &[u8]) -> Option<&'a Sx> {
    if path.is_empty() {
        return Some(n);
    }
    match n {
        Sx::Node(_, l, r) => {
            let c = if path[0] == 0 { l } else { r };
            c.as_ref().and_then(|c| node_at(c, &path[1..]))
        }
        _ => None,
    }
}

fn rewrite_at(n: &Sx, path: &[u8], kind: &str) -> Option<Sx> {
    if path.is_empty() {
        return match kind {
            "parenthesise-operand" => match n {
                // a separator inside ( ) is white space, and a property name in parentheses becomes a look-up: not meaning-preserving
                Sx::Node(d, _, _) if d == "Subexpression" || d == "ExpressionSeparator" || d == "Group" => None,
                _ => Some(Sx::node("Group", None, Some(n.clone()))),
            },
            _ => match n {
                Sx::Leaf(d, t) => {
                    // bodies without an observable effect: a constant, a constant followed by a block of its own, a list
                    let block = |body: Sx| Box::new(Sx::node("SideEffect", None, Some(body)));
                    let one = Sx::leaf("Number", "1");
                    let nested = Sx::ValNode("Number".into(), "2".into(), None, Some(block(Sx::leaf("Number", "3"))));
                    let list = Sx::node("List", Some(Sx::leaf("Number", "8")), Some(Sx::leaf("Number", "9")));
                    // bodies that start with a group or a prefix operator and go on with a binary operator
                    let product = |first: Sx| Sx::node("MultiplicationSign", Some(first), Some(Sx::leaf("Number", "4")));
                    let grouped = product(Sx::node("Group", None, Some(Sx::leaf("Number", "3"))));
                    let negated = product(Sx::node("Opposite", None, Some(Sx::leaf("Number", "3"))));
                    Some(match kind {
                        "add-side-effect-holding-a-grouped-product" => Sx::ValNode(d.clone(), t.clone(), None, Some(block(grouped))),
                        "add-side-effect-holding-a-negated-product" => Sx::ValNode(d.clone(), t.clone(), None, Some(block(negated))),
                        "add-side-effect-before-holding-a-grouped-product" => Sx::ValNode(d.clone(), t.clone(), Some(block(grouped)), None),
                        "add-constant-side-effect" => Sx::ValNode(d.clone(), t.clone(), None, Some(block(one))),
                        "add-side-effect-before" => Sx::ValNode(d.clone(), t.clone(), Some(block(one)), None),
                        "add-side-effect-holding-a-block" => Sx::ValNode(d.clone(), t.clone(), None, Some(block(nested))),
                        "add-side-effect-before-holding-a-block" => Sx::ValNode(d.clone(), t.clone(), Some(block(nested)), None),
                        _ => Sx::ValNode(d.clone(), t.clone(), None, Some(block(list))),
                    })
                }
                _ => None,
            },
        };
    }
    match n {
        Sx::Node(d, l, r) => {
            // the right operand of `.` that is a bare identifier is a property name: wrapping it changes its meaning
            if d == "Access" && path[0] == 1 && path.len() == 1 {
                if let Some(rc) = r {
                    if matches!(&**rc, Sx::Leaf(dd, _) if dd == "Identifier") {
                        return None;
                    }
                }
            }
            // operands of a list flatten into it unless grouped: parenthesising a list item that is itself a same-kind list changes nesting
            if (d == "List" || d == "CommaList") && kind == "parenthesise-operand" && path.len() == 1 {
                let c = if path[0] == 0 { l } else { r };
                if let Some(c) = c {
                    if matches!(&**c, Sx::Node(cd, _, _) if cd == d) {
                        return None;
                    }
                }
            }
            // a conditional chain must stay a chain: parenthesising an arm that is a conditional detaches it
            if d == "ElseJump" && kind == "parenthesise-operand" && path.len() == 1 {
                return None;
            }
            if path[0] == 0 {
                let nl = rewrite_at(l.as_ref()?, &path[1..], kind)?;
                Some(Sx::Node(d.clone(), Some(Box::new(nl)), r.clone()))
            } else {
                let nr = rewrite_at(r.as_ref()?, &path[1..], kind)?;
                Some(Sx::Node(d.clone(), l.clone(), Some(Box::new(nr))))
            }
        }
        _ => None,
    }
}

impl Check for C18Check {
    fn id(&self) -> &'static str {
        "C18"
    }
    fn rule(&self) -> String {
        "Programs: every core-language AST with at most k nodes (k=3 quick, 4 thorough; the C01 enumerator) printed with single spaces, plus random larger ASTs. For each accepted program every single rewrite is applied at every position (random programs: a tape-chosen subset of positions): \
         each gap between two tokens is replaced by no space / one space / several spaces / a tab / a line break / an annotation (spaced, or glued to either neighbour) / a comment line (inside a list-space or blank-line gap: widening with blanks and tabs, an annotation before the operator's white space, after it, or after it and glued to the next token); two gaps at once (a line break in one, trailing blanks or a tab before a line break in a later one, and the other way round); each blank line additionally rewritten to hold a space, a tab, or tabs and spaces; trailing or leading white space, annotation or comment line; parentheses around one complete operand; a side-effect block without an observable effect after or before one value (body: a constant, a constant with a block of its own, a list, a product whose first factor is grouped or negated), also glued to its neighbour without white space, and two such blocks in a row before one value. \
         A rewrite is applicable only if the lexer still produces the same significant tokens (otherwise counted, not judged) and is meaning-preserving by construction (not applied to a property name after `.`, to a same-kind list item, to an arm of an else chain, or around separators). \
         Oracle (metamorphic): the parse tree modulo Group nodes and side-effect blocks is unchanged and the final value on both data implementations and two inputs is unchanged. \
         Non-trivial = a gap rewrite between tokens of different classes; distinct = distinct (program, position, rewrite)."
            .to_string()
    }
    fn assumptions(&self) -> Vec<String> {
        vec!["a single line break is plain white space; a blank line is a separator and is never introduced by a rewrite".into()]
    }
    fn phases(&self, tier: Tier) -> Vec<Phase> {
        vec![
            Phase::exhaustive("all-rewrites-of-small-programs", astgen::count_up_to(tier.pick(3, 4))).with_chunk(64),
            Phase::random("random-programs-random-rewrites", tier.pick(12_000, 300_000), 200).with_min_tape(40).with_chunk(128),
            Phase::exhaustive("all-rewrites-of-corpus-programs", corpus_programs().len() as u64).with_chunk(2).with_deadline_ms(20_000),
        ]
    }
    fn run(&self, tier: Tier, phase: usize, input: &Input, ctx: &mut CaseCtx) {
        match (phase, input) {
            (0, Input::Index(i)) => {
                if let Some(ast) = astgen::unrank(*i, tier.pick(3, 4)) {
                    self.judge(&ast, &[0, 1], None, ctx);
                }
            }
            (2, Input::Index(i)) => {
                // hand-shaped programs the small-AST enumeration cannot reach: loops, calls, chains, nesting (read by the
                // reference parser; every rewrite at every position)
                let text = &corpus_programs()[*i as usize];
                let ast = crate::model::refparse::tokens_from_text(text).ok().and_then(|t| crate::model::refparse::Pratt::parse(&t).ok()).map(|t| t.strip_groups());
                match ast {
                    Some(ast) => {
                        ctx.class("corpus-program");
                        self.judge(&ast, &[0, 2], None, ctx);
                    }
                    None => ctx.class("corpus-program-not-read-by-the-reference-parser"),
                }
            }
            (1, Input::Tape(t)) => {
                let mut t = Tape::new(t);
                let a = t.choose(7);
                let ast = astgen::random_ast(&mut t, 4);
                self.judge(&ast, &[0, a], Some(&mut t), ctx);
            }
            _ => {}
        }
    }
}
