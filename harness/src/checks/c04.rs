//! C04 — an accepted program accounts for every token, in order.

use crate::checks::c02;
use crate::engine::core::*;
use crate::engine::tape::{Tape, fnv};
use crate::model::data::*;
use crate::model::optable;
use crate::model::pipeline::*;
use crate::model::refparse::{Layout, compose, render};
use crate::model::treecheck::*;
use garnish_lang_compiler::lex::TokenType;

pub struct C04Check;
pub static C04: C04Check = C04Check;

pub fn judge(input: &str, ctx: &mut CaseCtx) {
    ctx.render(|| format!("{:?}", input));
    let tokens = match lex_g(input) {
        Ok(Ok(t)) => t,
        _ => {
            ctx.class("not-accepted");
            return;
        }
    };
    let parsed = match parse_g(&tokens) {
        Ok(Ok(p)) => p,
        _ => {
            ctx.class("not-accepted");
            return;
        }
    };
    // C03 owns cycles that make build hang; they are also C04 violations (reported here under their own signature)
    let cyclic = tree_has_cycle(parsed.get_root(), parsed.get_nodes());
    let mut data = new_simple();
    let built = if cyclic {
        None
    } else {
        match build_g(&parsed, &mut data) {
            Ok(Ok(b)) => Some(b),
            _ => None,
        }
    };
    if cyclic {
        ctx.class("accepted-by-parse-cyclic");
        ctx.fail(format!("cyclic-tree[{}]", crate::checks::c03::minimal_cyclic_pattern(&tokens)), format!("parse accepted {:?} and returned a tree with a cycle", input));
        return;
    }
    let built = match built {
        Some(b) => b,
        None => {
            ctx.class("parse-accepted-build-rejected");
            return;
        }
    };
    ctx.class("accepted");
    let nodes = parsed.get_nodes();
    let significant = tokens.iter().filter(|t| !matches!(t.get_token_type(), TokenType::Whitespace | TokenType::Annotation | TokenType::LineAnnotation)).count();
    let dropped = tokens.len() - nodes.len().min(tokens.len());
    if significant >= 3 && dropped >= 1 {
        ctx.nontrivial(fnv(input.as_bytes()));
    }
    let info = match check_structure(parsed.get_root(), nodes) {
        Ok(i) => i,
        Err(f) => {
            ctx.fail(f.sig, format!("{:?}: {}", input, f.detail));
            return;
        }
    };
    for f in check_accounting(&tokens, nodes, &info) {
        let sig = match f.at {
            Some((line, col)) => format!("{}:{}", f.sig, context_key(&tokens, line, col)),
            None if has_misplaced_side_effect(&tokens) => format!("{}:side-effect-block-not-next-to-a-value", f.sig),
            None => f.sig.clone(),
        };
        ctx.fail(sig, format!("{:?}: {}", input, f.detail));
    }
    // metadata: every value and operator node owns >= 1 instruction
    let mut owned = vec![false; nodes.len()];
    for m in built.instruction_metadata() {
        if let Some(i) = m.get_parse_node_index() {
            if i < owned.len() {
                owned[i] = true;
            } else {
                ctx.fail("metadata-names-missing-node", format!("{:?}: instruction metadata names parse node {} of {}", input, i, nodes.len()));
            }
        }
    }
    for &i in &info.in_order {
        if needs_instruction(i, nodes) && !owned[i] {
            let t = nodes[i].get_lex_token();
            ctx.fail(
                format!("node-without-instruction:{}", if has_misplaced_side_effect(&tokens) { "side-effect-block-not-next-to-a-value".to_string() } else { context_key(&tokens, t.get_line(), t.get_column()) }),
                format!("{:?}: node {} ({:?} {:?}) is reachable but no emitted instruction is attributed to it", input, i, nodes[i].get_definition(), nodes[i].get_lex_token().get_text()),
            );
        }
    }
}

/// A side-effect block is only defined next to a plain value (`5 [x]`, `[x] 5`): is some block in this input attached to
/// neither a value before its `[` nor a value after its `]`?
pub fn has_misplaced_side_effect(tokens: &[garnish_lang_compiler::lex::LexerToken]) -> bool {
    let sig: Vec<TokenType> = tokens.iter().map(|t| t.get_token_type()).filter(|t| !matches!(t, TokenType::Whitespace | TokenType::Annotation | TokenType::LineAnnotation)).collect();
    let is_val = |t: Option<&TokenType>| matches!(t.map(|t| token_class(*t)), Some("value") | Some("identifier"));
    for (k, t) in sig.iter().enumerate() {
        if *t != TokenType::StartSideEffect {
            continue;
        }
        // matching closer
        let mut depth = 0i32;
        let mut close = None;
        for (j, u) in sig.iter().enumerate().skip(k) {
            match u {
                TokenType::StartSideEffect => depth += 1,
                TokenType::EndSideEffect => {
                    depth -= 1;
                    if depth == 0 {
                        close = Some(j);
                        break;
                    }
                }
                _ => {}
            }
        }
        let before = if k > 0 { sig.get(k - 1) } else { None };
        let after = close.and_then(|c| sig.get(c + 1));
        if !is_val(before) && !is_val(after) {
            return true;
        }
        // a block directly after a suffix operator follows an operation, not a value (recorded finding: the parser makes
        // the suffix operation the block's own child and nothing is emitted for it), whatever comes after the block
        if matches!(before.map(|t| token_class(*t)), Some("suffix") | Some("suffix-id")) {
            return true;
        }
        // two blocks in a row, or a block directly inside another block
        if matches!(before, Some(TokenType::EndSideEffect) | Some(TokenType::StartSideEffect)) || matches!(after, Some(TokenType::StartSideEffect)) {
            return true;
        }
        // a value with a block on both sides is fine, a block between two values belongs to the first one:
        // `5 [x] 6` is defined; but a block whose value before it already carries a block is the adjacent case above
    }
    false
}

/// classes of the previous / this / next significant token around the token at (line, col); side-effect adjacency first
pub fn context_key(tokens: &[garnish_lang_compiler::lex::LexerToken], line: usize, col: usize) -> String {
    let sig: Vec<&garnish_lang_compiler::lex::LexerToken> = tokens.iter().filter(|t| !matches!(t.get_token_type(), TokenType::Whitespace | TokenType::Annotation | TokenType::LineAnnotation)).collect();
    let k = match sig.iter().position(|t| t.get_line() == line && t.get_column() == col) {
        Some(k) => k,
        None => return "?".to_string(),
    };
    let cls = |i: Option<usize>| -> &'static str {
        match i.and_then(|i| sig.get(i)) {
            Some(t) => token_class(t.get_token_type()),
            None => "edge",
        }
    };
    let prev = cls(k.checked_sub(1));
    let this = cls(Some(k));
    let next = cls(Some(k + 1));
    if has_misplaced_side_effect(tokens) {
        return "side-effect-block-not-next-to-a-value".to_string();
    }
    let _ = (prev, this, next);
    format!("{}|{}|{}", prev, this, next)
}

impl Check for C04Check {
    fn id(&self) -> &'static str {
        "C04"
    }
    fn rule(&self) -> String {
        "Same corpus as C03 (every sequence of up to L token classes x 3 separators, token soups) plus well-formed operator expressions (level-representative triples in two layouts, random deeper expressions with groups from the C02 generator) and every string of up to 9 (quick) / 10 (thorough) tokens over {5, [, ], +, space} (all placements of side-effect blocks around values). \
         Judged only when parse and build both accept: child/parent links agree, no node is reached twice (sharing/cycle), the in-order walk has strictly increasing source positions, every significant token (values, operators, openers, `;;`) is carried by exactly one reachable node, \
         separators standing between two operands (outside `( )`) are kept, no node carries a token that is not in the input, and every reachable value/operator node owns at least one instruction in BuildData::instruction_metadata \
         (exempt: Group, ElseJump, a List/CommaList nested directly in a list of the same kind). Non-trivial = accepted input with >= 3 significant tokens and at least one token that creates no node; distinct = distinct inputs."
            .to_string()
    }
    fn assumptions(&self) -> Vec<String> {
        vec![
            "redundant separators = leading, trailing, doubled, directly after an opener / before a closer, or inside a ( ) group".into(),
            "structural nodes that emit nothing of their own (Group, ElseJump, same-kind nested list) are exempt from the metadata clause".into(),
        ]
    }
    fn phases(&self, tier: Tier) -> Vec<Phase> {
        let l = tier.pick(4, 5);
        let r = optable::level_representatives().len() as u64;
        vec![
            Phase::exhaustive("class-sequences", class_sequence_count(l)).with_chunk(8192),
            Phase::exhaustive("operator-triples", r * r * r * 2).with_chunk(4096),
            Phase::exhaustive("side-effect-placements", alphabet_count(SIDE_EFFECT_ALPHABET.len() as u64, tier.pick(9, 10))).with_chunk(16384),
            Phase::random("token-soups", tier.pick(100_000, 3_000_000), 120).with_min_tape(6).with_chunk(1024),
            Phase::random("random-deep-expressions", tier.pick(100_000, 3_000_000), 96).with_min_tape(16).with_chunk(2048),
            Phase::exhaustive("statement-blocks", block_string_count(tier.pick(7, 8))).with_chunk(16384),
            Phase::exhaustive("control-flow-skeletons", crate::model::astgen::CONTROL.count_up_to(tier.pick(8, 9))).with_chunk(4096),
            Phase::exhaustive("repetition", repetition_corpus().len() as u64).with_chunk(16),
        ]
    }
    fn run(&self, tier: Tier, phase: usize, input: &Input, ctx: &mut CaseCtx) {
        match (phase, input) {
            (0, Input::Index(i)) => {
                let s = class_sequence(*i, tier.pick(4, 5));
                judge(&s, ctx);
            }
            (1, Input::Index(i)) => {
                let reps = optable::level_representatives();
                let k = reps.len() as u64;
                let variant = i % 2;
                let mut r = i / 2;
                let mut ops = vec![];
                for _ in 0..3 {
                    ops.push(reps[(r % k) as usize]);
                    r /= k;
                }
                let atoms: &[(&'static str, &str)] = if variant == 0 { &[("Number", "1"), ("Number", "2"), ("Number", "3"), ("Number", "4")] } else { &[("Identifier", "a"), ("Identifier", "b"), ("Identifier", "c"), ("Identifier", "d")] };
                match compose(&ops, atoms) {
                    Some(t) => judge(&render(&t, if variant == 0 { Layout::Spaced } else { Layout::Tight }), ctx),
                    None => ctx.class("invalid-fixity-sequence"),
                }
            }
            (2, Input::Index(i)) => judge(&alphabet_string(*i, SIDE_EFFECT_ALPHABET, tier.pick(9, 10)), ctx),
            (3, Input::Tape(t)) => {
                let s = token_soup(&mut Tape::new(t), 40);
                judge(&s, ctx);
            }
            (4, Input::Tape(t)) => {
                let s = c02::random_source(t);
                judge(&s, ctx);
            }
            (5, Input::Index(i)) => judge(&block_string(*i, tier.pick(7, 8)), ctx),
            (6, Input::Index(i)) => match crate::model::astgen::control_source(*i, tier.pick(8, 9)) {
                Some(s) => judge(&s, ctx),
                None => ctx.class("not-printable"),
            },
            (7, Input::Index(i)) => judge(&repetition_corpus()[*i as usize], ctx),
            (_, Input::Text(s)) => judge(s, ctx),
            _ => {}
        }
    }
}
