//! Running programs under scripted hosts and comparing value + call trace with the reference evaluator (C10, C17).

use crate::checks::c01::{Got, Verdict, front_end, run_parsed};
use crate::model::data::Impl;
use crate::model::hosts::{Call, HostState, Hosted, new_basic_hosted, new_simple_hosted, reference_host};
use crate::model::refeval::{Eval, Event, Stop};
use crate::model::refparse::Tok;
use crate::model::sx::Sx;
use crate::model::value::{V, same};

pub fn run_hosted(imp: Impl, text: &str, toks: Option<&[Tok]>, input: &V, state: &HostState, max_steps: usize) -> (Got, Vec<Call>) {
    run_hosted_mode(imp, false, text, toks, input, state, max_steps)
}

/// `on_copy` (SimpleGarnishData only): the build-once, copy-per-execution pattern — the program is built into an object
/// with the callbacks installed, its data marked constant, and the run happens on a `clone_with_aux_without_data` copy
pub fn run_hosted_mode(imp: Impl, on_copy: bool, text: &str, toks: Option<&[Tok]>, input: &V, state: &HostState, max_steps: usize) -> (Got, Vec<Call>) {
    let parsed = match front_end(text, toks) {
        Ok(p) => p,
        Err(g) => return (g, vec![]),
    };
    if on_copy && imp == Impl::Simple {
        use crate::model::pipeline::{RunEnd, build_g, run_program};
        use garnish_lang_traits::GarnishData;
        let mut d = new_simple_hosted(state.clone());
        let b = match build_g(&parsed, &mut d) {
            Err(p) => return (Got::Panic("build", p.loc), vec![]),
            Ok(Err(e)) => return (Got::Rejected("build", e), vec![]),
            Ok(Ok(b)) => b,
        };
        let entry = *b.jump_index();
        let last = d.get_data_len().saturating_sub(1);
        if d.set_end_of_constant(last).is_err() {
            return (Got::HarnessError("set_end_of_constant".into()), vec![]);
        }
        let mut c = match d.clone_with_aux_without_data() {
            Ok(c) => c,
            Err(e) => return (Got::RuntimeError(format!("clone_with_aux_without_data failed: {}", e)), vec![]),
        };
        let ia = match crate::model::value::build_value(&mut c, input) {
            Ok(a) => a,
            Err(e) => return (Got::HarnessError(format!("cannot build input value: {}", e)), vec![]),
        };
        let got = match run_program(&mut c, entry, Some(ia), max_steps) {
            RunEnd::Finished(_) => match c.get_current_value() {
                Some(a) => Got::Value(crate::model::value::readback(&c, a)),
                None => Got::RuntimeError("no current value after the run".into()),
            },
            RunEnd::Error(e) => Got::RuntimeError(e),
            RunEnd::StepLimit => Got::StepLimit,
            RunEnd::Panic(p) => Got::Panic("run", p.loc),
        };
        return (got, c.host().log.clone());
    }
    match imp {
        Impl::Simple => {
            let mut d = new_simple_hosted(state.clone());
            let g = run_parsed(&mut d, &parsed, input, max_steps);
            (g, d.host().log.clone())
        }
        Impl::Basic => {
            let mut d = new_basic_hosted(state.clone());
            let g = run_parsed(&mut d, &parsed, input, max_steps);
            (g, d.host().log.clone())
        }
    }
}

/// expression values are compared by kind only: drop their table index from rendered arguments
fn mask_expr(s: &str) -> String {
    let mut out = String::new();
    let mut rest = s;
    while let Some(i) = rest.find("expr#") {
        out.push_str(&rest[..i + 5]);
        rest = &rest[i + 5..];
        let n = rest.chars().take_while(|c| c.is_ascii_digit()).count();
        rest = &rest[n..];
    }
    out.push_str(rest);
    out
}

fn show_trace(t: &[String]) -> String {
    format!("[{}]", t.join(" "))
}

/// value and host-call trace must both match the reference
pub fn judge_hosted(imp: Impl, text: &str, toks: &[Tok], reference: &Sx, input: &V, state: &HostState, used: &mut Vec<&'static str>, externals: &[(usize, Option<i32>)]) -> Verdict {
    judge_hosted_mode(imp, false, text, toks, reference, input, state, used, externals)
}

pub fn judge_hosted_mode(imp: Impl, on_copy: bool, text: &str, toks: &[Tok], reference: &Sx, input: &V, state: &HostState, used: &mut Vec<&'static str>, externals: &[(usize, Option<i32>)]) -> Verdict {
    let mut host = reference_host(state);
    // externals: Basic calls the host's apply; SimpleGarnishData has no such hook (every external declines silently)
    static ANSWERS: [fn(&V) -> Option<V>; 4] = [|_| None, |_| Some(V::Int(70)), |_| Some(V::Int(80)), |_| Some(V::Int(90))];
    for (n, ans) in externals {
        let f = match (imp, ans) {
            (Impl::Basic, Some(70)) => ANSWERS[1],
            (Impl::Basic, Some(80)) => ANSWERS[2],
            (Impl::Basic, Some(_)) => ANSWERS[3],
            _ => ANSWERS[0],
        };
        host.externals.push((*n, f));
    }
    let mut ev = Eval::new(&host, 20_000);
    let expected = match ev.run(reference, input.clone()) {
        Ok(v) => v,
        Err(Stop::Undefined(w)) => return Verdict::Skip(w),
        Err(_) => return Verdict::Skip("reference-budget"),
    };
    for u in &ev.used {
        if !used.contains(u) {
            used.push(u);
        }
    }
    let expected_trace: Vec<String> = ev
        .trace
        .iter()
        .filter_map(|e| match e {
            Event::Resolve(s) => Some(format!("resolve({:x})", s & 0xffff)),
            Event::ExternalApply(n, arg) => {
                if imp == Impl::Basic {
                    Some(format!("apply({},{})", n, mask_expr(arg)))
                } else {
                    None
                }
            }
        })
        .collect();
    let (got, log) = run_hosted_mode(imp, on_copy, text, Some(toks), input, state, ev.steps * 16 + 256);
    let got_trace: Vec<String> = log
        .iter()
        .filter_map(|c| match c {
            Call::Resolve(s) => Some(format!("resolve({:x})", s & 0xffff)),
            Call::Apply(n, arg) => Some(format!("apply({},{})", n, mask_expr(arg))),
            Call::Defer(..) => None,
        })
        .collect();
    match got {
        Got::Value(v) => {
            if got_trace != expected_trace {
                let kind = if got_trace.len() > expected_trace.len() {
                    "host-called-more-often-than-the-source-evaluates"
                } else if got_trace.len() < expected_trace.len() {
                    "host-called-less-often-than-the-source-evaluates"
                } else {
                    "host-calls-differ"
                };
                return Verdict::Fail(kind.into(), format!("host call trace {} but the reference evaluates {} (value {} / reference {})", show_trace(&got_trace), show_trace(&expected_trace), v, expected));
            }
            if same(&v, &expected) {
                Verdict::Agree
            } else {
                Verdict::Fail("result-mismatch".into(), format!("expected {} got {} (trace {})", expected, v, show_trace(&got_trace)))
            }
        }
        Got::Rejected("layout-merge", _) => Verdict::Skip("layout-merge"),
        Got::Rejected(stage, msg) => Verdict::Fail(format!("well-formed-program-rejected-by-{}", stage), format!("reference value {} but {} rejected it: {}", expected, stage, msg)),
        Got::RuntimeError(e) => Verdict::Fail("runtime-error".into(), format!("expected {} but execution failed: {}", expected, e)),
        Got::StepLimit => Verdict::Fail("did-not-finish".into(), format!("expected {} after {} reference steps", expected, ev.steps)),
        Got::Panic(stage, loc) => Verdict::Fail(format!("{}-panic@{}", stage, loc), format!("expected {}", expected)),
        Got::HarnessError(_) => Verdict::Skip("input-not-buildable"),
    }
}
