//! C16 — lists keep their order and find every key.

use crate::engine::core::*;
use crate::engine::tape::{Tape, fnv};
use crate::model::data::*;
use crate::model::opcall::call;
use crate::model::value::{V, build_value, pair, readback, same, text};
use garnish_lang_simple_data::SimpleNumber;
use garnish_lang_traits::{Extents, Instruction};

pub struct C16Check;
pub static C16: C16Check = C16Check;

#[derive(Clone, Copy, PartialEq, Debug)]
enum Kind {
    Number,
    Text,
    Symbol,
    KeyedPair,
    NumberKeyedPair,
    NestedList,
    /// the unit value as an item (one implementation marks unused table slots with it)
    Unit,
}
const KINDS: [Kind; 7] = [Kind::Number, Kind::Text, Kind::Symbol, Kind::KeyedPair, Kind::NumberKeyedPair, Kind::NestedList, Kind::Unit];

fn item_of(kind: Kind, pos: usize, key: u64) -> V {
    match kind {
        Kind::Number => V::Int(100 + pos as i32),
        Kind::Text => text(&format!("t{}", pos)),
        Kind::Symbol => V::Sym(key ^ 0x5555),
        Kind::KeyedPair => pair(V::Sym(key), V::Int(1000 + pos as i32)),
        Kind::NumberKeyedPair => pair(V::Int(pos as i32), V::Int(2000 + pos as i32)),
        Kind::NestedList => V::List(vec![V::Int(pos as i32), pair(V::Sym(key), V::Int(3000 + pos as i32))]),
        Kind::Unit => V::Unit,
    }
}

/// (symbol, expected value) of the keyed pairs in a flat item sequence; keys are distinct by construction
fn keyed(items: &[V]) -> Vec<(u64, V)> {
    items.iter().filter_map(|i| if let V::Pair(k, v) = i { if let V::Sym(s) = **k { Some((s, (**v).clone())) } else { None } } else { None }).collect()
}

fn flat(v: &V, out: &mut Vec<V>) {
    match v {
        V::Concat(a, b) => {
            flat(a, out);
            flat(b, out);
        }
        V::List(items) => out.extend(items.iter().cloned()),
        other => out.push(other.clone()),
    }
}

fn kinds_key(items: &[V]) -> String {
    let has_keyed = items.iter().any(|i| matches!(i, V::Pair(k, _) if matches!(**k, V::Sym(_))));
    let has_other_pair = items.iter().any(|i| matches!(i, V::Pair(k, _) if !matches!(**k, V::Sym(_))));
    let has_plain = items.iter().any(|i| !matches!(i, V::Pair(..)));
    format!("{}{}{}", if has_keyed { "keyed" } else { "" }, if has_other_pair { "+pair-with-other-key" } else { "" }, if has_plain { "+unkeyed" } else { "" })
}

fn judge_on<D: GD>(d: &mut D, imp: Impl, container: &V, absent: &[u64], ctx: &mut CaseCtx) {
    let mut items = vec![];
    flat(container, &mut items);
    let is_list = matches!(container, V::List(_));
    let addr = match build_value(d, container) {
        Ok(a) => a,
        Err(_) => {
            ctx.class("not-buildable");
            return;
        }
    };
    let shape = kinds_key(&items);
    let n = items.len();
    if is_list {
        // length, every index, past the end
        match guard("store", || d.get_list_len(addr)) {
            Ok(Ok(l)) if l == n => {}
            other => ctx.fail(format!("list-length:{}", imp.name()), format!("{} on {}: get_list_len gave {:?}, the list has {} items", container, imp.name(), other.map(|r| r.map_err(|e| e.to_string())), n)),
        }
        for k in 0..n {
            match guard("store", || d.get_list_item(addr, SimpleNumber::Integer(k as i32))) {
                Ok(Ok(Some(a))) => {
                    let v = readback(d, a);
                    if !same(&v, &items[k]) {
                        ctx.fail(format!("list-item-wrong:{}", imp.name()), format!("{} on {}: item {} reads back as {} instead of {}", container, imp.name(), k, v, items[k]));
                    }
                }
                other => ctx.fail(format!("list-item-missing:{}", imp.name()), format!("{} on {}: get_list_item({}) gave {:?}", container, imp.name(), k, other.map(|r| r.map_err(|e| e.to_string())))),
            }
        }
        for k in [n, n + 1, n + 7] {
            match guard("store", || d.get_list_item(addr, SimpleNumber::Integer(k as i32))) {
                Ok(Ok(None)) => {}
                Ok(Ok(Some(a))) => ctx.fail(format!("list-item-past-the-end-exists:{}", imp.name()), format!("{} on {}: get_list_item({}) returned {}", container, imp.name(), k, readback(d, a))),
                Ok(Err(e)) => ctx.fail(format!("list-item-past-the-end-is-an-error:{}", imp.name()), format!("{} on {}: get_list_item({}) of a {}-item list returned Err({}) instead of 'no item'", container, imp.name(), k, n, e)),
                Err(p) => ctx.fail(format!("panic@{}", p.loc), format!("get_list_item({}) on {}", k, container)),
            }
        }
        // iteration order
        match guard("store", || d.get_list_item_iter(addr, Extents::new(SimpleNumber::Integer(0), SimpleNumber::Integer(i32::MAX)))) {
            Ok(Ok(it)) => {
                let got: Vec<V> = it.map(|a| readback(d, a)).collect();
                if got.len() != n || !got.iter().zip(items.iter()).all(|(a, b)| same(a, b)) {
                    ctx.fail(format!("iteration-order:{}", imp.name()), format!("{} on {}: iteration yields {:?}", container, imp.name(), got.iter().map(|v| v.to_string()).collect::<Vec<_>>()));
                }
            }
            other => ctx.fail(format!("iteration-fails:{}", imp.name()), format!("{} on {}: {:?}", container, imp.name(), other.map(|r| r.map(|_| ()).map_err(|e| e.to_string())))),
        }
        // look-ups through the data interface
        for (s, want) in keyed(&items) {
            match guard("store", || d.get_list_item_with_symbol(addr, s)) {
                Ok(Ok(Some(a))) => {
                    let v = readback(d, a);
                    if !same(&v, &want) {
                        ctx.fail(format!("lookup-wrong-value:{}:{}", imp.name(), shape), format!("{} on {}: key {:x} gives {} instead of {}", container, imp.name(), s, v, want));
                    }
                }
                Ok(Ok(None)) => ctx.fail(format!("lookup-misses-present-key:{}:{}", imp.name(), shape), format!("{} on {}: key {:x} is in the list but get_list_item_with_symbol reports absent", container, imp.name(), s)),
                Ok(Err(e)) => ctx.fail(format!("lookup-error:{}:{}", imp.name(), shape), format!("{} on {}: key {:x}: Err({})", container, imp.name(), s, e)),
                Err(p) => ctx.fail(format!("panic@{}", p.loc), format!("lookup on {}", container)),
            }
        }
        for s in absent {
            if keyed(&items).iter().any(|(k, _)| k == s) {
                continue;
            }
            match guard("store", || d.get_list_item_with_symbol(addr, *s)) {
                Ok(Ok(None)) => {}
                Ok(Ok(Some(a))) => ctx.fail(format!("lookup-finds-absent-key:{}:{}", imp.name(), shape), format!("{} on {}: absent key {:x} gives {}", container, imp.name(), s, readback(d, a))),
                Ok(Err(e)) => ctx.fail(format!("lookup-error-on-absent-key:{}:{}", imp.name(), shape), format!("{} on {}: absent key {:x}: Err({})", container, imp.name(), s, e)),
                Err(p) => ctx.fail(format!("panic@{}", p.loc), format!("lookup on {}", container)),
            }
        }
    }
}

/// the same through the Access and Apply instructions (lists and concatenations)
fn judge_instructions(imp: Impl, container: &V, absent: &[u64], ctx: &mut CaseCtx) {
    let mut items = vec![];
    flat(container, &mut items);
    let shape = kinds_key(&items);
    let n = items.len() as i32;
    let mut probes: Vec<(V, V)> = vec![];
    for k in [-1, 0, n - 1, n, n + 3] {
        let want = if k >= 0 && k < n { items[k as usize].clone() } else { V::Unit };
        probes.push((V::Int(k), want));
    }
    // every key of a small container; of a large one the ends, the middle and two dozen in between (every probe rebuilds
    // the container; the data-interface look-up above is checked for every key whatever the size)
    let all_keys = keyed(&items);
    let stride = (all_keys.len() / 24).max(1);
    for (pos, (s, want)) in all_keys.iter().enumerate() {
        let mid = all_keys.len() / 2;
        if all_keys.len() <= 40 || pos % stride == 0 || pos + 2 >= all_keys.len() || pos < 2 || (pos + 1 >= mid && pos <= mid + 1) {
            probes.push((V::Sym(*s), want.clone()));
        }
    }
    for s in absent {
        if !all_keys.iter().any(|(k, _)| k == s) {
            probes.push((V::Sym(*s), V::Unit));
        }
    }
    // length through the instruction (`.|`), and the container cast to a list: the flat sequence of its items
    for (ins, right, want) in [(Instruction::AccessLengthInternal, None, V::Int(n)), (Instruction::ApplyType, Some(V::List(vec![])), V::List(items.clone()))] {
        ctx.sub_evals += 1;
        let out = match imp {
            Impl::Simple => call(&mut new_simple(), ins, container, right.as_ref()),
            Impl::Basic => call(&mut new_basic(), ins, container, right.as_ref()),
        };
        if let Ok(o) = out {
            let what = format!("{:?} of {} on {}", ins, container, imp.name());
            match (&o.panicked, &o.result) {
                (Some(loc), _) => ctx.fail(format!("panic@{}", loc), what),
                (_, Ok(v)) if same(v, &want) => {}
                (_, other) => ctx.fail(
                    format!("instruction-{}-wrong:{}", if ins == Instruction::ApplyType { "cast-to-list" } else { "length" }, if matches!(container, V::Concat(..)) { "concatenation" } else { "list" }),
                    format!("{} gave {:?} instead of {}", what, other, want),
                ),
            }
        }
    }
    for (key, want) in probes {
        for ins in [Instruction::Access, Instruction::Apply] {
            if ins == Instruction::Apply && matches!(container, V::Concat(..)) {
                continue; // apply on a concatenation is not a look-up
            }
            ctx.sub_evals += 1;
            let out = match imp {
                Impl::Simple => call(&mut new_simple(), ins, container, Some(&key)),
                Impl::Basic => call(&mut new_basic(), ins, container, Some(&key)),
            };
            let out = match out {
                Ok(o) => o,
                Err(_) => return,
            };
            let what = format!("{:?} of {} with {} on {}", ins, container, key, imp.name());
            if let Some(loc) = &out.panicked {
                ctx.fail(format!("panic@{}", loc), what);
                continue;
            }
            let past_end = matches!(key, V::Int(k) if k >= n);
            match &out.result {
                Ok(v) => {
                    if !same(v, &want) {
                        ctx.fail(format!("instruction-lookup-wrong:{:?}:{}:{}", ins, if matches!(key, V::Sym(_)) { "by-symbol" } else { "by-index" }, shape), format!("{} gave {} instead of {}", what, v, want));
                    }
                }
                Err(e) => ctx.fail(
                    format!("instruction-lookup-error:{}:{}", imp.name(), if past_end { "index-past-the-end" } else if matches!(key, V::Sym(_)) { "by-symbol" } else { "by-index" }),
                    format!("{} failed: {}", what, e),
                ),
            }
        }
    }
}

fn judge(container: &V, absent: &[u64], ctx: &mut CaseCtx) {
    ctx.render(|| format!("{}", container));
    let mut items = vec![];
    flat(container, &mut items);
    let nkeys = keyed(&items).len();
    if nkeys >= 2 && items.iter().any(|i| !matches!(i, V::Pair(..))) {
        ctx.nontrivial(fnv(format!("{}", container).as_bytes()));
    }
    // the container is built into a fresh object and into one that already holds a few unrelated values (the item
    // addresses, which one implementation places by, are then shifted by 1..7)
    let shift = 1 + (fnv(format!("{}", container).as_bytes()) % 7) as i32;
    for imp in Impl::BOTH {
        for prelude in [0, shift] {
            ctx.sub_evals += 1;
            match imp {
                Impl::Simple => {
                    let mut d = new_simple();
                    for k in 0..prelude {
                        let _ = garnish_lang_traits::GarnishData::add_number(&mut d, SimpleNumber::Integer(7_000_000 + k));
                    }
                    judge_on(&mut d, imp, container, absent, ctx)
                }
                Impl::Basic => {
                    let mut d = new_basic();
                    for k in 0..prelude {
                        let _ = garnish_lang_traits::GarnishData::add_number(&mut d, SimpleNumber::Integer(7_000_000 + k));
                    }
                    judge_on(&mut d, imp, container, absent, ctx)
                }
            }
        }
        judge_instructions(imp, container, absent, ctx);
    }
}

fn adversarial_keys(t: &mut Tape, n: usize) -> Vec<u64> {
    let len = n.max(1) as u64;
    let mut keys: Vec<u64> = vec![];
    let mode = t.choose(7);
    for i in 0..n as u64 {
        let k = match mode {
            0 => i * len,                           // all equal modulo the length
            1 => u64::MAX - i,                      // top of the range, descending
            2 => i,                                 // 0, 1, 2 ... ascending from the minimum
            3 => 1000 - i.min(1000),                // descending
            4 => (i * len) + (len - 1),             // all congruent to len-1
            5 => if i % 2 == 0 { i / 2 } else { u64::MAX - i / 2 }, // extremes interleaved
            _ => t.u64(),
        };
        if !keys.contains(&k) {
            keys.push(k);
        } else {
            keys.push(k.wrapping_add(0x9E37_79B9_7F4A_7C15u64.wrapping_mul(i + 1)));
        }
    }
    keys
}

/// the key patterns of `adversarial_keys`, without a tape
fn keys_for(mode: u64, n: usize) -> Vec<u64> {
    let len = n.max(1) as u64;
    (0..n as u64)
        .map(|i| match mode {
            0 => i * len,
            1 => u64::MAX - i,
            2 => i,
            3 => 100_000 - i,
            4 => (i * len) + (len - 1),
            5 => if i % 2 == 0 { i / 2 } else { u64::MAX - i / 2 },
            _ => (i + 1).wrapping_mul(0x9E37_79B9_7F4A_7C15),
        })
        .collect()
}

impl Check for C16Check {
    fn id(&self) -> &'static str {
        "C16"
    }
    fn rule(&self) -> String {
        "Phase small-lists: every list of length 0..4 over seven item kinds (number, text, symbol, pair keyed by a symbol, pair keyed by a number, nested list holding a keyed pair, the unit value), distinct keys; phase random: lists of up to 64 items with adversarial raw 64-bit symbol keys (all equal modulo the length, congruent to length-1, minimum and maximum u64, ascending, descending, interleaved extremes, random), and concatenations of two or three such lists; phase key-paths: look-ups by a path of two symbols (`container <~ :outer.inner`, and the two accesses one after the other) where the outer key's value is a list, a concatenation of lists (left- and right-nested), a concatenation of pairs or a list mixing keyed and unkeyed items, the inner key first / in the middle / last / absent; phase size-sweep: keyed lists (all keyed, every third item unkeyed, split into a concatenation of two lists) of every size in 8..300 (thorough ..1000) around powers of two and round numbers under the seven key patterns. \
         Each container is built through the data API on both data implementations, into a fresh object and into one that already holds 1..7 unrelated values. Oracle (a plain Vec model): get_list_len = n; get_list_item(k) reads back item k for 0<=k<n and reports no item (never an error) past the end; get_list_item_iter yields the items in insertion order; get_list_item_with_symbol returns the value of the pair keyed by each present symbol and 'absent' (never an error) for absent symbols including ones colliding modulo the length; \
         the Access and Apply instructions with every index in {-1, 0, n-1, n, n+3} and every present / absent symbol give the same answers (unit for absent), also on concatenations; the length instruction `.|` gives n and a cast to a list gives the flat sequence of the items. \
         Non-trivial = at least two symbol keys plus at least one unkeyed item; distinct = distinct containers."
            .to_string()
    }
    fn assumptions(&self) -> Vec<String> {
        vec!["symbol keys within one container are distinct".into(), "negative indexes are only exercised through the instructions (the runtime never passes them to the data interface)".into()]
    }
    fn phases(&self, tier: Tier) -> Vec<Phase> {
        let sizes = crate::model::pipeline::SIZE_SWEEP.iter().filter(|n| **n <= tier.pick(300, 1000)).count() as u64;
        vec![
            Phase::exhaustive("small-lists", 1 + 7 + 49 + 343 + 2401).with_chunk(32),
            Phase::random("random-lists", tier.pick(80_000, 1_000_000), 160).with_min_tape(16).with_chunk(256),
            Phase::exhaustive("size-sweep", sizes * 7 * 3).with_chunk(1).with_deadline_ms(60_000),
            Phase::exhaustive("key-paths", 2 * 3 * 5 * 3 * 2).with_chunk(4),
        ]
    }
    fn run(&self, _tier: Tier, phase: usize, input: &Input, ctx: &mut CaseCtx) {
        match (phase, input) {
            (0, Input::Index(i)) => {
                let mut idx = *i;
                let mut len = 0usize;
                let mut block = 1u64;
                while idx >= block {
                    idx -= block;
                    block *= 7;
                    len += 1;
                }
                let mut items = vec![];
                let keys = [7u64, 3, 11, 4];
                let mut code = idx;
                let mut kinds = vec![Kind::Number; len];
                for p in (0..len).rev() {
                    kinds[p] = KINDS[(code % 7) as usize];
                    code /= 7;
                }
                for (p, k) in kinds.iter().enumerate() {
                    items.push(item_of(*k, p, keys[p]));
                }
                ctx.class("small-list");
                judge(&V::List(items), &[0, 1, 2, 7 + 4, 3 + 8, 99, u64::MAX], ctx);
            }
            (3, Input::Index(i)) => {
                // a look-up by a path of two symbols (`container <~ :outer.inner`): the outer key's value is itself a container
                // of each kind, the inner key sits first / in the middle / last in it or is absent
                let mut r = *i;
                let present = r % 2 == 0;
                r /= 2;
                let inner_pos = (r % 3) as usize;
                r /= 3;
                let inner_kind = r % 5;
                r /= 5;
                let outer_pos = (r % 3) as usize;
                r /= 3;
                let outer_concat = r % 2 == 1;
                let ik = |k: usize| 9000 + k as u64 * 13;
                let inner_items: Vec<V> = (0..3).map(|k| pair(V::Sym(ik(k)), V::Int(500 + k as i32))).collect();
                let cat = |a: V, b: V| V::Concat(Box::new(a), Box::new(b));
                let inner = match inner_kind {
                    0 => V::List(inner_items.clone()),
                    1 => cat(V::List(inner_items[..1].to_vec()), V::List(inner_items[1..].to_vec())),
                    2 => cat(V::List(inner_items[..1].to_vec()), cat(V::List(inner_items[1..2].to_vec()), V::List(inner_items[2..].to_vec()))),
                    3 => cat(cat(inner_items[0].clone(), inner_items[1].clone()), inner_items[2].clone()),
                    _ => V::List(vec![V::Int(7), inner_items[0].clone(), V::Int(8), inner_items[1].clone(), inner_items[2].clone()]),
                };
                let ok = |k: usize| 700 + k as u64 * 17;
                let outer_items: Vec<V> = (0..3).map(|k| if k == outer_pos { pair(V::Sym(ok(k)), inner.clone()) } else { pair(V::Sym(ok(k)), V::Int(k as i32)) }).collect();
                let container = if outer_concat { cat(V::List(outer_items[..2].to_vec()), V::List(outer_items[2..].to_vec())) } else { V::List(outer_items) };
                let inner_key = if present { ik(inner_pos) } else { 9999 };
                let path = V::SymList(vec![crate::model::value::SymPart::Sym(ok(outer_pos)), crate::model::value::SymPart::Sym(inner_key)]);
                let want = if present { V::Int(500 + inner_pos as i32) } else { V::Unit };
                ctx.render(|| format!("{} <~ {} should be {}", container, path, want));
                ctx.class("key-path");
                ctx.nontrivial(fnv(format!("kp{}", i).as_bytes()));
                for imp in Impl::BOTH {
                    // the path applied to the container; and, on a concatenation (which apply does not take), the two accesses one after the other
                    let steps: Vec<(Instruction, V, V)> = if outer_concat { vec![] } else { vec![(Instruction::Apply, container.clone(), path.clone())] };
                    for (ins, l, rr) in steps {
                        ctx.sub_evals += 1;
                        let out = match imp {
                            Impl::Simple => call(&mut new_simple(), ins, &l, Some(&rr)),
                            Impl::Basic => call(&mut new_basic(), ins, &l, Some(&rr)),
                        };
                        if let Ok(o) = out {
                            match (&o.panicked, &o.result) {
                                (Some(loc), _) => ctx.fail(format!("panic@{}", loc), format!("{} <~ {} on {}", container, path, imp.name())),
                                (_, Ok(v)) if same(v, &want) => {}
                                (_, other) => ctx.fail(
                                    format!("key-path-lookup-wrong:{}:inner-{}", if present { "present" } else { "absent" }, ["list", "concatenation", "right-nested-concatenation", "concatenation-of-pairs", "mixed-list"][inner_kind as usize]),
                                    format!("{} <~ {} on {} gave {:?} instead of {}", container, path, imp.name(), other, want),
                                ),
                            }
                        }
                    }
                    // step by step with Access: (container . outer) . inner
                    ctx.sub_evals += 1;
                    let two = |first: Result<crate::model::opcall::OpOutcome, String>| -> Option<V> { first.ok().and_then(|o| o.result.ok()) };
                    let mid = match imp {
                        Impl::Simple => two(call(&mut new_simple(), Instruction::Access, &container, Some(&V::Sym(ok(outer_pos))))),
                        Impl::Basic => two(call(&mut new_basic(), Instruction::Access, &container, Some(&V::Sym(ok(outer_pos))))),
                    };
                    match mid {
                        Some(m) if same(&m, &inner) => {
                            let fin = match imp {
                                Impl::Simple => two(call(&mut new_simple(), Instruction::Access, &inner, Some(&V::Sym(inner_key)))),
                                Impl::Basic => two(call(&mut new_basic(), Instruction::Access, &inner, Some(&V::Sym(inner_key)))),
                            };
                            if !matches!(&fin, Some(v) if same(v, &want)) {
                                ctx.fail("key-path-second-access-wrong".to_string(), format!("{} . {:x} on {} gave {:?} instead of {}", inner, inner_key, imp.name(), fin, want));
                            }
                        }
                        other => ctx.fail("key-path-first-access-wrong".to_string(), format!("{} . {:x} on {} gave {:?} instead of {}", container, ok(outer_pos), imp.name(), other, inner)),
                    }
                }
            }
            (2, Input::Index(i)) => {
                // keyed lists of every size around the usual thresholds, under every key pattern
                let n = crate::model::pipeline::SIZE_SWEEP[(*i / 21) as usize];
                let mode = (*i / 3) % 7;
                let shape = *i % 3;
                let keys = keys_for(mode, n);
                let items: Vec<V> = (0..n).map(|p| if shape == 1 && p % 3 == 2 { item_of(Kind::Number, p, 0) } else { item_of(Kind::KeyedPair, p, keys[p]) }).collect();
                let container = if shape == 2 {
                    // the same items as a concatenation of two lists
                    let (a, b) = items.split_at(n / 2);
                    V::Concat(Box::new(V::List(a.to_vec())), Box::new(V::List(b.to_vec())))
                } else {
                    V::List(items)
                };
                ctx.class("size-sweep");
                let len = n as u64;
                let absent = [keys[0].wrapping_add(len), keys[n - 1] ^ 1, keys[n / 2].wrapping_sub(len), u64::MAX / 3];
                let absent: Vec<u64> = absent.iter().copied().filter(|k| !keys.contains(k)).collect();
                judge(&container, &absent, ctx);
            }
            (1, Input::Tape(t)) => {
                let mut t = Tape::new(t);
                let parts = 1 + t.choose(3);
                let mut lists = vec![];
                let total_keys = adversarial_keys(&mut t, 64 * 3);
                let mut next_key = 0usize;
                for _ in 0..parts {
                    let n = match t.choose(4) {
                        0 => t.choose(4),
                        1 => 4 + t.choose(8),
                        2 => 12 + t.choose(20),
                        _ => t.choose(65),
                    };
                    let mut items = vec![];
                    for p in 0..n {
                        let kind = if t.chance(150) { Kind::KeyedPair } else { KINDS[t.choose(7)] };
                        items.push(item_of(kind, p + lists.len() * 100, total_keys[next_key % total_keys.len()]));
                        next_key += 1;
                    }
                    lists.push(V::List(items));
                }
                let container = if lists.len() == 1 {
                    lists.pop().unwrap()
                } else if lists.len() == 2 {
                    V::Concat(Box::new(lists[0].clone()), Box::new(lists[1].clone()))
                } else if t.flag() {
                    V::Concat(Box::new(V::Concat(Box::new(lists[0].clone()), Box::new(lists[1].clone()))), Box::new(lists[2].clone()))
                } else {
                    V::Concat(Box::new(lists[0].clone()), Box::new(V::Concat(Box::new(lists[1].clone()), Box::new(lists[2].clone()))))
                };
                ctx.class(if matches!(container, V::Concat(..)) { "concatenation" } else { "list" });
                let mut flat_items = vec![];
                flat(&container, &mut flat_items);
                let len = flat_items.len().max(1) as u64;
                let mut absent = vec![0, u64::MAX, 1, len, len - 1, 2 * len];
                if let Some((k, _)) = keyed(&flat_items).first() {
                    absent.push(k.wrapping_add(len));
                    absent.push(k.wrapping_sub(len));
                    absent.push(k ^ 1);
                }
                judge(&container, &absent, ctx);
            }
            _ => {}
        }
    }
}
