//! C03 — the compile pipeline is total: no input panics or hangs it.

use crate::engine::core::*;
use crate::engine::tape::{Tape, fnv};
use crate::model::data::*;
use crate::model::pipeline::*;

pub struct C03Check;
pub static C03: C03Check = C03Check;

pub const LONG_TOKEN_KINDS: &[&str] = &["text", "bytes", "identifier", "symbol", "annotation", "number-then-letter"];
/// `T` is replaced by the token
pub const LONG_TOKEN_CONTEXTS: &[&str] = &["T", "5 T", "5T", "T 5", "T5", "( T", "T )", ") T", "+ T +", "T T", "{ T ]", "[ T", "T ;; T", "5 + T 6 +", "T . T ~~ ~~"];

/// what escape processing looks at: backslash, the escape letters, braces, hex digits that reach the surrogate range and
/// the ends of the code space, a quote
pub const ESCAPE_ALPHABET: &[&str] = &["\\", "u", "{", "}", "D", "8", "0", "F", "n", "\""];

/// every body over ESCAPE_ALPHABET up to `max_len`, as a text literal (even index) and as a byte-list literal (odd)
pub fn escape_string(index: u64, max_len: u32) -> String {
    let body = alphabet_string(index / 2, ESCAPE_ALPHABET, max_len);
    if index % 2 == 0 { format!("\"{}\"", body) } else { format!("'{}'", body) }
}

/// stack of the thread the scaling families run on (a host thread has 2 MiB by default; the pipeline needs a few KiB)
pub const SCALING_STACK: usize = 192 * 1024;

pub const FAMILIES: &[&str] = &[
    "nested-groups", "nested-expressions", "nested-side-effects", "pair-chain", "space-list", "comma-list", "prefix-chain", "suffix-chain", "addition-chain", "precedence-ladder", "else-chain", "and-chain", "subexpressions", "access-chain",
    "long-string", "long-number", "annotations", "unclosed-groups", "closers-only", "operators-only",
];

pub fn family_input(family: &str, n: usize) -> String {
    match family {
        "nested-groups" => format!("{}5{}", "(".repeat(n), ")".repeat(n)),
        "nested-expressions" => format!("{}5{}", "{".repeat(n), "}".repeat(n)),
        "nested-side-effects" => format!("{}5{}", "5 [".repeat(n), "]".repeat(n)),
        "pair-chain" => vec!["a"; n].join(" = "),
        "space-list" => vec!["5"; n].join(" "),
        "comma-list" => vec!["5"; n].join(", "),
        "prefix-chain" => format!("{}5", "--".repeat(n)),
        "suffix-chain" => format!("a{}", "~~".repeat(n)),
        "addition-chain" => vec!["5"; n].join(" + "),
        "precedence-ladder" => {
            let ops = ["||", "&&", "==", "<", "<>", "=", "..", "|", "^", "&", "<<", "+", "*", "**", "~#", "."];
            let mut s = String::from("a");
            for i in 0..n {
                s.push_str(&format!(" {} a", ops[i % ops.len()]));
            }
            s
        }
        "else-chain" => {
            let mut s = String::new();
            for _ in 0..n {
                s.push_str("a ?> 5 |> ");
            }
            s.push('6');
            s
        }
        "and-chain" => vec!["a"; n].join(" && "),
        "subexpressions" => vec!["5"; n].join("\n\n"),
        "access-chain" => vec!["a"; n].join("."),
        "long-string" => format!("\"{}\"", "x".repeat(n * 8)),
        "long-number" => "5".repeat(n * 4),
        "annotations" => format!("5 {}+ 6", "@a ".repeat(n)),
        "unclosed-groups" => "(".repeat(n),
        "closers-only" => ")".repeat(n),
        "operators-only" => "+ ".repeat(n),
        _ => String::new(),
    }
}

pub struct PipeOutcome {
    pub lexed: bool,
    pub parsed: bool,
    pub built: bool,
    pub cyclic: bool,
}

/// Run the three stages; report panics through ctx. Known non-termination (cyclic tree) is pre-detected unless strict.
pub fn run_pipeline(input: &str, ctx: &mut CaseCtx) -> PipeOutcome {
    let mut out = PipeOutcome { lexed: false, parsed: false, built: false, cyclic: false };
    let tokens = match lex_g(input) {
        Err(p) => {
            ctx.fail(format!("lex-panic@{}", p.loc), format!("lex panicked on {:?}: {}", input, p.msg));
            return out;
        }
        Ok(Err(_)) => return out,
        Ok(Ok(t)) => t,
    };
    out.lexed = true;
    let parsed = match parse_g(&tokens) {
        Err(p) => {
            ctx.fail(format!("parse-panic@{}", p.loc), format!("parse panicked on {:?}: {}", input, p.msg));
            return out;
        }
        Ok(Err(_)) => return out,
        Ok(Ok(r)) => r,
    };
    out.parsed = true;
    if tree_has_cycle(parsed.get_root(), parsed.get_nodes()) {
        out.cyclic = true;
        if !ctx.strict {
            // `build` follows left/right links with an explicit stack and never terminates on a cycle (confirmed under the
            // watchdog with `bin/check C03 --replay`); pre-detected here so that the campaign does not stall on it
            let pattern = minimal_cyclic_pattern(&tokens);
            ctx.fail(format!("build-nonterminating:parse-returned-cyclic-tree[{}]", pattern), format!("parse accepted {:?} and returned a tree with a cycle; build does not terminate on it", input));
            return out;
        }
    }
    let mut all_built = true;
    for imp in Impl::BOTH {
        let r = match imp {
            Impl::Simple => build_g(&parsed, &mut new_simple()).map(|r| r.map(|_| ())),
            Impl::Basic => build_g(&parsed, &mut new_basic()).map(|r| r.map(|_| ())),
        };
        match r {
            Err(p) => {
                ctx.fail(format!("build-panic@{}", p.loc), format!("build ({}) panicked on {:?}: {}", imp.name(), input, p.msg));
                all_built = false;
            }
            Ok(Err(_)) => all_built = false,
            Ok(Ok(())) => {}
        }
    }
    out.built = all_built;
    out
}

/// Remove tokens while the parse result stays cyclic; key the finding by the token classes that remain.
pub fn minimal_cyclic_pattern(tokens: &[garnish_lang_compiler::lex::LexerToken]) -> String {
    let is_cyclic = |toks: &Vec<garnish_lang_compiler::lex::LexerToken>| -> bool {
        match parse_g(toks) {
            Ok(Ok(p)) => tree_has_cycle(p.get_root(), p.get_nodes()),
            _ => false,
        }
    };
    let mut cur: Vec<garnish_lang_compiler::lex::LexerToken> = tokens.to_vec();
    loop {
        let mut reduced = false;
        for i in 0..cur.len() {
            let mut cand = cur.clone();
            cand.remove(i);
            if is_cyclic(&cand) {
                cur = cand;
                reduced = true;
                break;
            }
        }
        if !reduced {
            break;
        }
    }
    cur.iter().map(|t| token_class(t.get_token_type())).collect::<Vec<_>>().join(" ")
}

fn classify(out: &PipeOutcome, input: &str, ctx: &mut CaseCtx) {
    if out.built {
        ctx.class("reaches-build-ok");
    } else if out.parsed {
        ctx.class("parsed-build-rejected-or-failed");
    } else if out.lexed {
        ctx.class("lexed-parse-rejected");
    } else {
        ctx.class("lex-rejected");
    }
    if out.lexed {
        ctx.nontrivial(fnv(input.as_bytes()));
    }
}

impl C03Check {
    fn sizes(tier: Tier) -> Vec<usize> {
        match tier {
            Tier::Quick => vec![1, 2, 3, 8, 64, 256, 512, 1024, 2048, 16384],
            Tier::Thorough => vec![1, 2, 3, 8, 64, 256, 512, 1024, 2048, 4096, 8192, 16384],
        }
    }
}

impl Check for C03Check {
    fn id(&self) -> &'static str {
        "C03"
    }
    fn rule(&self) -> String {
        format!(
            "Phase class-sequences: every sequence of up to L token classes ({} classes, one per parser token class incl. brackets, separators, `;;`, annotations; L=4 quick, 5 thorough) x 3 separators (none, space, annotation), in size order; \
             literal-strings: every string of length <= 6 (quick) / 7 (thorough) over the characters single quote, double quote, 1, 0, space, é, backslash, a, underscore (all literal shapes incl. multi-byte content in every quote form and radix-like numbers); long-tokens: a text, byte list, identifier, symbol, annotation or digit run of 0..47 ASCII characters followed by 2-, 4- and 3-byte characters, in 15 well-formed and malformed surroundings; escape-strings: every body of up to 6 (7) items over backslash, u, n, braces, the hex digits D 8 0 F and a quote, as a text and as a byte-list literal; token-soups and char-soups: random sequences of up to 400 tokens / 300 characters (control characters, quotes, backslash, CR, NUL, multi-byte) from a proptest tape; scaling: {} input families (deep nesting, long chains, long literals, unbalanced brackets) at doubling sizes. \
             Oracle: lex, parse and build (into SimpleGarnishData and BasicGarnishData) each return Ok or Err: no panic (catch_unwind), no abort or hang (worker watchdog, 5 s per case; 60 s for scaling cases), the scaling families (n up to 16384; several families are quadratic: 8 s of CPU at n = 16384, which is why the sizes stop there) must finish inside a 30 s watchdog  and run on a thread with a 192 KiB stack, so that stack use growing with nesting depth or chain length overflows and aborts the worker. \
             Non-trivial = the input lexes (reaches parse); distinct = distinct input strings.",
            TOKEN_CLASSES.len(),
            FAMILIES.len()
        )
    }
    fn assumptions(&self) -> Vec<String> {
        vec![
            "a parse result containing a cycle is reported without calling build (build provably loops on it); strict replay runs build under the watchdog".into(),
            "the polynomial-time clause is judged only by an absolute 30 s watchdog on fixed families of doubling size (wall-clock growth ratios proved flaky under load and were dropped; see DESIGN.md)".into(),
        ]
    }
    fn phases(&self, tier: Tier) -> Vec<Phase> {
        let l = tier.pick(4, 5);
        vec![
            Phase::exhaustive("class-sequences", class_sequence_count(l)).with_chunk(8192),
            Phase::exhaustive("literal-strings", alphabet_count(LITERAL_ALPHABET.len() as u64, tier.pick(6, 7))).with_chunk(8192),
            Phase::random("token-soups", tier.pick(60_000, 2_000_000), 800).with_min_tape(4).with_chunk(1024),
            Phase::random("char-soups", tier.pick(60_000, 2_000_000), 300).with_min_tape(2).with_chunk(1024),
            Phase::exhaustive("scaling", (FAMILIES.len() * Self::sizes(tier).len()) as u64).with_chunk(1).with_deadline_ms(30_000),
            Phase::exhaustive("statement-blocks", block_string_count(tier.pick(7, 8))).with_chunk(16384),
            Phase::exhaustive("repetition", repetition_corpus().len() as u64).with_chunk(16),
            Phase::exhaustive("long-tokens", (LONG_TOKEN_KINDS.len() * LONG_TOKEN_CONTEXTS.len() * 48) as u64).with_chunk(256),
            Phase::exhaustive("escape-strings", alphabet_count(ESCAPE_ALPHABET.len() as u64, tier.pick(6, 7)) * 2).with_chunk(16384),
        ]
    }
    fn run(&self, tier: Tier, phase: usize, input: &Input, ctx: &mut CaseCtx) {
        match (phase, input) {
            (0, Input::Index(i)) => {
                let s = class_sequence(*i, tier.pick(4, 5));
                ctx.render(|| format!("{:?}", s));
                let out = run_pipeline(&s, ctx);
                classify(&out, &s, ctx);
            }
            (1, Input::Index(i)) => {
                let s = alphabet_string(*i, LITERAL_ALPHABET, tier.pick(6, 7));
                ctx.render(|| format!("{:?}", s));
                let out = run_pipeline(&s, ctx);
                classify(&out, &s, ctx);
            }
            (2, Input::Tape(t)) => {
                let s = token_soup(&mut Tape::new(t), 400);
                ctx.render(|| format!("{:?}", s));
                let out = run_pipeline(&s, ctx);
                classify(&out, &s, ctx);
            }
            (3, Input::Tape(t)) => {
                let s = char_soup(&mut Tape::new(t), 300);
                ctx.render(|| format!("{:?}", s));
                let out = run_pipeline(&s, ctx);
                classify(&out, &s, ctx);
            }
            (4, Input::Index(i)) => {
                let sizes = Self::sizes(tier);
                let fam = FAMILIES[(*i as usize) / sizes.len()];
                let n = sizes[(*i as usize) % sizes.len()];
                let s = family_input(fam, n);
                ctx.render(|| format!("family {} n={} ({} bytes)", fam, n, s.len()));
                // the scaling families run on a thread with a small stack: the pipeline works with explicit stacks, so
                // its stack use does not depend on the input; recursion in proportion to nesting depth or chain length
                // overflows SCALING_STACK at these sizes and aborts the worker, which the orchestrator reports
                let strict = ctx.strict;
                let (out, failures) = std::thread::scope(|sc| {
                    std::thread::Builder::new()
                        .stack_size(SCALING_STACK)
                        .spawn_scoped(sc, || {
                            let mut c = CaseCtx::new(false);
                            c.strict = strict;
                            let out = run_pipeline(&s, &mut c);
                            (out, c.failures)
                        })
                        .expect("spawn scaling thread")
                        .join()
                        .expect("scaling thread")
                });
                for f in failures {
                    ctx.fail(f.sig, f.detail);
                }
                classify(&out, &format!("{}#{}", fam, n), ctx);
                ctx.class("scaling");
            }
            (5, Input::Index(i)) => {
                let s = block_string(*i, tier.pick(7, 8));
                ctx.render(|| format!("{:?}", s));
                let out = run_pipeline(&s, ctx);
                classify(&out, &s, ctx);
            }
            (6, Input::Index(i)) => {
                let s = repetition_corpus()[*i as usize].clone();
                ctx.render(|| format!("{:?}", s));
                let out = run_pipeline(&s, ctx);
                classify(&out, &s, ctx);
            }
            (7, Input::Index(i)) => {
                // one long token holding multi-byte characters, in well-formed and malformed surroundings: whatever the
                // stages do with the token's text (messages, excerpts, slicing) must not depend on where a character ends
                let len = (*i % 48) as usize;
                let r = *i / 48;
                let kind = LONG_TOKEN_KINDS[(r % LONG_TOKEN_KINDS.len() as u64) as usize];
                let context = LONG_TOKEN_CONTEXTS[(r / LONG_TOKEN_KINDS.len() as u64) as usize];
                let body = format!("{}é😀漢é", "a".repeat(len));
                let token = match kind {
                    "text" => format!("\"{}\"", body),
                    "bytes" => format!("'{}'", body),
                    "identifier" => body.clone(),
                    "symbol" => format!(":{}", body),
                    "annotation" => format!("@{}", body),
                    _ => format!("{}{}", "7".repeat(len + 1), "é"),
                };
                let s = context.replace("T", &token);
                ctx.render(|| format!("{:?}", s));
                let out = run_pipeline(&s, ctx);
                classify(&out, &s, ctx);
            }
            (8, Input::Index(i)) => {
                let s = escape_string(*i, tier.pick(6, 7));
                ctx.render(|| format!("{:?}", s));
                let out = run_pipeline(&s, ctx);
                classify(&out, &s, ctx);
            }
            (_, Input::Text(s)) => {
                ctx.render(|| format!("{:?}", s));
                let out = run_pipeline(s, ctx);
                classify(&out, s, ctx);
            }
            _ => {}
        }
    }
    fn render(&self, tier: Tier, phase: usize, input: &Input) -> String {
        match (phase, input) {
            (0, Input::Index(i)) => format!("{:?}", class_sequence(*i, tier.pick(4, 5))),
            (1, Input::Index(i)) => format!("{:?}", alphabet_string(*i, LITERAL_ALPHABET, tier.pick(6, 7))),
            (2, Input::Tape(t)) => format!("{:?}", token_soup(&mut Tape::new(t), 400)),
            (3, Input::Tape(t)) => format!("{:?}", char_soup(&mut Tape::new(t), 300)),
            (4, Input::Index(i)) => {
                let sizes = Self::sizes(tier);
                format!("family {} n={}", FAMILIES[(*i as usize) / sizes.len()], sizes[(*i as usize) % sizes.len()])
            }
            (5, Input::Index(i)) => format!("{:?}", block_string(*i, tier.pick(7, 8))),
            _ => format!("{:?}", input),
        }
    }
    fn hang_signature(&self, stage: &str, kind: &str) -> Option<String> {
        Some(format!("{}@{}", kind, stage))
    }
}
