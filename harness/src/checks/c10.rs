//! C10 — one notion of truth; conditionals and logic evaluate only what they must.

use crate::checks::c01::{Got, Verdict, run_real};
use crate::checks::hostrun::{judge_hosted, run_hosted};
use crate::model::hosts::Call;
use crate::engine::core::*;
use crate::engine::tape::fnv;
use crate::model::astgen::{self, Alphabet};
use crate::model::data::*;
use crate::model::hosts::HostState;
use crate::model::refparse::{Layout, render};
use crate::model::value::{SymPart, V, pair, same, sym, text};
use garnish_lang_simple_data::symbol_value;
use garnish_lang_traits::GarnishDataType;

pub struct C10Check;
pub static C10: C10Check = C10Check;

pub fn truth_values() -> Vec<V> {
    vec![
        V::Unit,
        V::False,
        V::True,
        V::Int(0),
        V::Int(1),
        V::Int(-1),
        V::Float(0.0),
        V::Float(2.5),
        V::Char('a'),
        V::Char('\0'),
        V::Byte(0),
        V::Byte(7),
        sym("k"),
        V::Sym(0),
        V::SymList(vec![SymPart::Sym(symbol_value("k")), SymPart::Sym(symbol_value("j"))]),
        text(""),
        text("a"),
        V::Bytes(vec![]),
        V::Bytes(vec![0]),
        pair(V::Unit, V::Unit),
        pair(sym("k"), V::False),
        V::List(vec![]),
        V::List(vec![V::Unit]),
        V::List(vec![V::False, V::False]),
        V::Concat(Box::new(V::Int(1)), Box::new(V::Int(2))),
        V::Range(Box::new(V::Int(0)), Box::new(V::Int(0))),
        V::Slice(Box::new(V::List(vec![V::Int(1)])), Box::new(V::Range(Box::new(V::Int(0)), Box::new(V::Int(0))))),
        V::Partial(Box::new(V::Int(1)), Box::new(V::Unit)),
        V::Expr(0),
        V::External(0),
        V::Type(GarnishDataType::Unit),
        V::Type(GarnishDataType::False),
    ]
}

/// (source, expected as a function of the tested value's truth)
pub const CONSTRUCTS: &[(&str, &str)] = &[
    ("$ ?> 1 |> 0", "one-if-true"),
    ("$ !> 1 |> 0", "one-if-false"),
    ("$ && $?", "bool"),
    ("$ || $!", "bool"),
    ("$ ^^ $!", "bool"),
    ("$! ^^ $", "bool"),
    ("$? ^^ $", "not-bool"),
    ("!! $", "not-bool"),
    ("?? $", "bool"),
    ("$? && $", "bool"),
    ("$! || $", "bool"),
    ("$ ?> 1", "one-or-self"),
    ("$ !> 1", "self-or-one"),
    ("$ ?> 1 |> $ ?> 2 |> 3", "one-if-true-else-three"),
    ("$ !> 1 |> $ ?> 2 |> 3", "one-if-false-else-two"),
];

/// operands written out in the source (not passed in through `$`), with the truth of the value they denote
pub const WRITTEN_FORMS: &[(&str, bool)] = &[
    ("()", false), ("$!", false), ("$?", true), ("0", true), ("2.5", true), ("\"\"", true), ("\"a\"", true), ("''", true), (":k", true), ("1 = 2", true), ("(,)", true), ("1, 2", true),
    ("1 2", true), ("1 .. 3", true), ("1 <> 2", true), ("{ 5 }", true), ("{ $! }", true), ("{ 1 == 1 }", true), ("{ 1 < 2 }", true), ("{ 1 == 2 }", true), ("1 == 1", true), ("1 == 2", false),
    ("1 < 2", true), ("2 < 1", false), ("1 != 1", false), ("!! 1", false), ("?? ()", false), ("1 && ()", false), ("() || 1", true), ("5 + 5", true), ("5 / 0", false), ("# 5", true),
    ("{ 5 } ~~", true), ("{ () } ~~", false), ("5 ~> { $! }", false), ("5 ~> { $ }", true), ("1 ?> ()", false), ("() ?> 1 |> $!", false), ("() !> 2 |> 3", true), ("1 ?> 2 |> ()", true),
];

/// WRITTEN_FORMS plus conditional operands in every arrangement of arm kinds: condition true / false, `?>` / `!>`, the arm
/// and the default each a number, unit, a true or false comparison, a negation or an equality (what the operand's last
/// instruction is decides what the builder emits after it, and the arms rejoin behind it)
pub fn written_forms() -> Vec<(String, bool)> {
    let mut v: Vec<(String, bool)> = WRITTEN_FORMS.iter().map(|(s, t)| (s.to_string(), *t)).collect();
    let arms: [(&str, bool); 6] = [("5", true), ("()", false), ("1 < 2", true), ("2 < 1", false), ("!! 1", false), ("1 == 1", true)];
    for (cond, cond_true) in [("1", true), ("()", false)] {
        for op in ["?>", "!>"] {
            for (arm, arm_truth) in arms {
                for (default, default_truth) in arms {
                    let takes_arm = cond_true == (op == "?>");
                    v.push((format!("{} {} {} |> {}", cond, op, arm, default), if takes_arm { arm_truth } else { default_truth }));
                }
            }
        }
    }
    v
}

fn written_constructs() -> Vec<(&'static str, &'static str)> {
    CONSTRUCTS.iter().filter(|(_, k)| !matches!(*k, "one-or-self" | "self-or-one")).cloned().collect()
}

pub const LOGIC: Alphabet = Alphabet {
    leaves: &[("Identifier", "u"), ("Identifier", "v"), ("Identifier", "w"), ("True", "$?"), ("False", "$!")],
    unary: &["Not", "Tis"],
    binary: &["JumpIfTrue", "JumpIfFalse", "ElseJump", "And", "Or", "Xor", "BlockBefore", "BlockAfter"],
};

pub fn hosts() -> Vec<(&'static str, HostState)> {
    let s = |names: &[&str]| HostState { resolve_script: names.iter().enumerate().map(|(i, n)| (symbol_value(n), 1000 + i as i32)).collect(), ..HostState::default() };
    vec![("resolves-none", s(&[])), ("resolves-u", s(&["u"])), ("resolves-v-w", s(&["v", "w"])), ("resolves-all", s(&["u", "v", "w"]))]
}

/// number of chain shapes: n = 2..=5 elements, each conditional or bare, each condition true or false, `?>` or `!>`,
/// four contexts
pub fn chain_shape_count() -> u64 {
    (2..=5u32).map(|n| (1u64 << n) * (1u64 << n)).sum::<u64>() * 2 * 4
}

/// (source, arm identifiers in order, index of the arm a well-formed chain selects (None = no arm), well-formed?)
pub fn chain_shape(i: u64) -> (String, Vec<String>, Option<usize>, bool) {
    let context = (i % 4) as usize;
    let negated = (i / 4) % 2 == 1;
    let mut r = i / 8;
    let mut n = 2u32;
    loop {
        let block = (1u64 << n) * (1u64 << n);
        if r < block {
            break;
        }
        r -= block;
        n += 1;
    }
    let kinds = r >> n;
    let truths = r & ((1 << n) - 1);
    let mut parts = vec![];
    let mut arms = vec![];
    let mut selected = None;
    let mut well_formed = true;
    for k in 0..n as usize {
        let conditional = (kinds >> k) & 1 == 1;
        let truth = (truths >> k) & 1 == 1;
        if conditional {
            // the arm runs when `truth`: with `!>` the condition is written the other way round
            let cond = if truth != negated { "$?" } else { "$!" };
            parts.push(format!("{} {} a{}", cond, if negated { "!>" } else { "?>" }, k + 1));
            arms.push(format!("a{}", k + 1));
            if truth && selected.is_none() {
                selected = Some(k);
            }
        } else {
            parts.push(format!("d{}", k + 1));
            arms.push(format!("d{}", k + 1));
            if k + 1 != n as usize || k == 0 {
                well_formed = false;
            }
            if selected.is_none() {
                selected = Some(k);
            }
        }
    }
    let chain = parts.join(" |> ");
    let src = match context {
        0 => chain,
        1 => format!("( {} ) + 1", chain),
        2 => format!("{{ {} }} ~~", chain),
        _ => format!("7, ( {} ), 8", chain),
    };
    (src, arms, selected, well_formed)
}

impl Check for C10Check {
    fn id(&self) -> &'static str {
        "C10"
    }
    fn rule(&self) -> String {
        format!(
            "Phase truth-matrix: {} values covering every value type with empty and non-empty representatives (built through the data API and passed as the input value) x {} testing constructs (`?>`, `!>`, `&&`, `||`, `^^` on either side, `!!`, `??`, right operands of `&&`/`||`, single conditionals and two-arm chains) x 2 data implementations, exhaustively; \
             expected classification: false exactly for unit and $!, `&&`/`||` results are booleans. \
             Phase evaluation-traces: every AST with at most k nodes (k=6 quick, 7 thorough) over identifiers u, v, w, $?, $! and the operators `?>` `!>` `|>` `&&` `||` `^^` `!!` `??` and a side-effect block before or after a value, run under 4 recording hosts (resolving none / u / v,w / all identifiers to numbers; an unresolved identifier is unit, i.e. false): \
             the order and multiplicity of the host's resolve calls and the final value must equal the reference evaluator's (right operands only when the left does not decide, only the selected arm, chain conditions in order, at most one arm). \
             Phase written-operand-forms: {} operand forms written out in the source (literals of every kind, comparisons, logical results, nested expressions whose body is a test, applied expressions, conditionals, lists, ranges) in place of the tested value of every construct above; expected from the statically known truth of the form. \
             Phase chain-shapes: every arrangement of 2..5 conditional (`?>` / `!>`, constant condition) and bare elements joined by `|>`, every truth pattern, in four contexts, arms being host-observable identifiers: whatever the pipeline accepts and runs evaluates at most one arm (also when a bare element stands before the end, which the builder is expected to reject), and a well-formed chain evaluates exactly the arm of its first true condition. \
             Non-trivial = a truth-matrix or written-operand case, a chain shape that ran, or a trace program in which the reference skips at least one identifier; distinct = distinct (program, host / value).",
            truth_values().len(),
            CONSTRUCTS.len(),
            written_forms().len()
        )
    }
    fn assumptions(&self) -> Vec<String> {
        vec!["else chains whose last arm is conditional (no default) are left to the recorded C06 finding and not judged".into()]
    }
    fn phases(&self, tier: Tier) -> Vec<Phase> {
        vec![
            Phase::exhaustive("truth-matrix", (truth_values().len() * CONSTRUCTS.len()) as u64).with_chunk(16),
            Phase::exhaustive("evaluation-traces", LOGIC.count_up_to(tier.pick(6, 7))).with_chunk(1024),
            Phase::exhaustive("written-operand-forms", (written_forms().len() * written_constructs().len()) as u64).with_chunk(16),
            Phase::exhaustive("chain-shapes", chain_shape_count()).with_chunk(64),
        ]
    }
    fn run(&self, tier: Tier, phase: usize, input: &Input, ctx: &mut CaseCtx) {
        match (phase, input) {
            (0, Input::Index(i)) => {
                let values = truth_values();
                let v = &values[(*i as usize) / CONSTRUCTS.len()];
                let (src, kind) = CONSTRUCTS[(*i as usize) % CONSTRUCTS.len()];
                let t = v.truthy();
                let expected = match kind {
                    "one-if-true" => V::Int(if t { 1 } else { 0 }),
                    "one-if-false" => V::Int(if t { 0 } else { 1 }),
                    "bool" => {
                        if t { V::True } else { V::False }
                    }
                    "not-bool" => {
                        if t { V::False } else { V::True }
                    }
                    "one-or-self" => {
                        if t { V::Int(1) } else { v.clone() }
                    }
                    "self-or-one" => {
                        if t { v.clone() } else { V::Int(1) }
                    }
                    "one-if-true-else-three" => V::Int(if t { 1 } else { 3 }),
                    _ => V::Int(if t { 2 } else { 1 }),
                };
                ctx.render(|| format!("{:?} with $ = {} ({})", src, v, v.type_name()));
                ctx.class("truth-matrix");
                ctx.nontrivial(fnv(format!("{}|{}", src, v).as_bytes()));
                for imp in Impl::BOTH {
                    ctx.sub_evals += 1;
                    let construct = src.split_whitespace().nth(1).unwrap_or(src);
                    match run_real(imp, src, None, v, 2000) {
                        Got::Value(g) => {
                            if !same(&g, &expected) {
                                ctx.fail(
                                    format!("truth-classification:{}:{}:{}", construct, v.type_name(), if t { "treated-as-false" } else { "treated-as-true" }),
                                    format!("{:?} with $ = {} on {}: expected {} got {}", src, v, imp.name(), expected, g),
                                );
                            }
                        }
                        Got::HarnessError(e) => ctx.fail(format!("value-not-buildable:{}:{}", imp.name(), v.type_name()), e),
                        other => ctx.fail(format!("truth-test-failed:{}:{}", construct, v.type_name()), format!("{:?} with $ = {} on {}: {:?}", src, v, imp.name(), other)),
                    }
                }
            }
            (2, Input::Index(i)) => {
                // the tested operand is written in the source: what the builder emits for `&&`, `?>` ... depends on the operand's form
                let cs = written_constructs();
                let forms = written_forms();
                let (form, t) = (forms[(*i as usize) / cs.len()].0.as_str(), forms[(*i as usize) / cs.len()].1);
                let (template, kind) = cs[(*i as usize) % cs.len()];
                let src = template.split(' ').map(|w| if w == "$" { format!("( {} )", form) } else { w.to_string() }).collect::<Vec<_>>().join(" ");
                let expected = match kind {
                    "one-if-true" => V::Int(if t { 1 } else { 0 }),
                    "one-if-false" => V::Int(if t { 0 } else { 1 }),
                    "bool" => {
                        if t { V::True } else { V::False }
                    }
                    "not-bool" => {
                        if t { V::False } else { V::True }
                    }
                    "one-if-true-else-three" => V::Int(if t { 1 } else { 3 }),
                    _ => V::Int(if t { 2 } else { 1 }),
                };
                ctx.render(|| format!("{:?} (the written operand is {})", src, if t { "true" } else { "false" }));
                ctx.class("written-operand");
                ctx.nontrivial(fnv(src.as_bytes()));
                let construct = template.split_whitespace().find(|w| *w != "$" && *w != "$?" && *w != "$!" && *w != "1" && *w != "0").unwrap_or(template);
                for imp in Impl::BOTH {
                    ctx.sub_evals += 1;
                    match run_real(imp, &src, None, &V::Unit, 2000) {
                        Got::Value(g) => {
                            if !same(&g, &expected) {
                                ctx.fail(format!("truth-classification-of-written-operand:{}:{}", construct, if t { "treated-as-false-or-not-converted" } else { "treated-as-true-or-not-converted" }), format!("{:?} on {}: expected {} got {}", src, imp.name(), expected, g));
                            }
                        }
                        other => ctx.fail(format!("truth-test-failed:{}:written-operand", construct), format!("{:?} on {}: {:?}", src, imp.name(), other)),
                    }
                }
            }
            (3, Input::Index(i)) => {
                // every arrangement of conditional and bare elements in a chain, also the ones the language does not
                // define (a bare element that is not last): whatever the pipeline accepts and runs must evaluate at
                // most one arm, and for a well-formed chain exactly the one the first true condition selects
                let (src, arms, selected, well_formed) = chain_shape(*i);
                ctx.render(|| format!("{:?} ({})", src, if well_formed { "well-formed chain" } else { "a bare element before the end" }));
                ctx.class(if well_formed { "chain-well-formed" } else { "chain-with-misplaced-default" });
                let state = HostState::default();
                for imp in Impl::BOTH {
                    ctx.sub_evals += 1;
                    let (got, log) = run_hosted(imp, &src, None, &V::Unit, &state, 3000);
                    let evaluated: Vec<String> = log
                        .iter()
                        .filter_map(|c| match c {
                            Call::Resolve(s) => arms.iter().find(|a| symbol_value(a) == *s).cloned(),
                            _ => None,
                        })
                        .collect();
                    match got {
                        Got::Value(_) => {
                            ctx.nontrivial(fnv(src.as_bytes()));
                            if evaluated.len() > 1 {
                                ctx.fail(
                                    format!("chain-evaluates-more-than-one-arm:{}", if well_formed { "well-formed" } else { "misplaced-default-accepted" }),
                                    format!("{:?} on {}: arms evaluated {:?}", src, imp.name(), evaluated),
                                );
                            } else if well_formed {
                                // an else chain without default that selects nothing is the recorded C06 finding: not judged
                                let expected: Vec<String> = selected.map(|k| vec![arms[k].clone()]).unwrap_or_default();
                                if evaluated != expected {
                                    ctx.fail("chain-evaluates-the-wrong-arm".to_string(), format!("{:?} on {}: arms evaluated {:?}, the first true condition selects {:?}", src, imp.name(), evaluated, expected));
                                }
                            }
                        }
                        Got::Rejected(..) => ctx.class("chain-rejected"),
                        _ => ctx.class("chain-run-fails"),
                    }
                }
            }
            (1, Input::Index(i)) => {
                let ast = match LOGIC.unrank(*i, tier.pick(6, 7)) {
                    Some(a) => a,
                    None => return,
                };
                let (toks, reference, _) = match astgen::printable(&ast) {
                    Some(x) => x,
                    None => {
                        ctx.class("not-printable");
                        return;
                    }
                };
                let text = render(&toks, Layout::Spaced);
                ctx.render(|| format!("{:?}", text));
                ctx.class("trace-program");
                let mut judged = false;
                for (hname, state) in hosts() {
                    for imp in Impl::BOTH {
                        ctx.sub_evals += 1;
                        let mut used = vec![];
                        match judge_hosted(imp, &text, &toks, &reference, &V::Unit, &state, &mut used, &[]) {
                            Verdict::Agree => judged = true,
                            Verdict::Skip(_) => {
                                ctx.class("reference-undefined");
                            }
                            Verdict::Fail(kind, detail) => {
                                judged = true;
                                let root = match &ast {
                                    crate::model::sx::Sx::Node(d, _, _) => d.clone(),
                                    _ => "leaf".to_string(),
                                };
                                ctx.fail(format!("{}:{}", kind, root), format!("{:?} under host {} on {}: {}", text, hname, imp.name(), detail));
                            }
                        }
                    }
                }
                if judged {
                    ctx.class("judged");
                    // non-trivial: some identifier occurrence is skipped by the reference under the all-resolving host
                    let idents = toks.iter().filter(|t| matches!(t, crate::model::refparse::Tok::Atom("Identifier", _))).count();
                    let host = crate::model::hosts::reference_host(&hosts()[3].1);
                    let mut ev = crate::model::refeval::Eval::new(&host, 5000);
                    if ev.run(&reference, V::Unit).is_ok() && ev.trace.len() < idents {
                        ctx.nontrivial(fnv(text.as_bytes()));
                        ctx.class("skips-an-identifier");
                    }
                }
            }
            _ => {}
        }
    }
}
