//! C07 — executing a built program never panics the host.

use crate::checks::c01::front_end;
use crate::checks::c02;
use crate::engine::core::*;
use crate::engine::tape::{Tape, fnv};
use crate::model::astgen;
use crate::model::data::*;
use crate::model::hosts::{HostState, new_basic_hosted, new_simple_hosted};
use crate::model::pipeline::*;
use crate::model::refparse::{Layout, render};
use crate::model::valuepool::{BINARY_OPS, PREFIX_OPS, SUFFIX_OPS, VALUE_POOL};
use crate::model::value::{self, V, pair, sym};

pub struct C07Check;
pub static C07: C07Check = C07Check;

pub const BOUNDARY_POOL: &[&str] = &[
    "2147483647", "(--2147483647 - 1)", "(--2147483647)", "2147483646", "1e308", "1e999", "(--1e999)", "0.0", "(--0.0)", "5e-324", "1.7976931348623157e308", "31", "32", "33", "(--1)", "(--32)", "0.5", "1.5", "(--0.5)", "4294967296.0",
    "\"\"", "\"é\"", "\"é😀漢\"", "''", "'é'", "'''255 0 1'''", "(0..0)", "(5..1)", "(--3..2)", "(0..2147483647)", "(1.5..2.5)", "(\"abc\" <~ 2..0)", "(\"abc\" <~ --1..5)", "((1 2 3) <~ 3..1)", "((1 2 3) <~ 0..99)",
    "('abc' <~ 2..1)", "((1 2 3) <> (4 5) <~ 4..1)", "(:a.b.c <~ 1..0)", "(((1 2 3) <~ 0..1) <~ 5..0)", "(,)", "((1 2 3) <~ 1.5..2.5)",
    // non-ASCII text inside other values (conversions and comparisons walk it character by character)
    "(\"é\" 1)", "(:k = \"漢\")", "(\"é\" <> \"x\")", ":é", "(\"é😀漢\" <~ 1..2)", "('é' 1)",
    // texts that spell numbers at and beyond the integer boundary (casts to a number read them digit by digit)
    "\"2147483647\"", "\"2147483648\"", "\"-2147483648\"", "\"-2147483649\"", "\"99999999999999999999\"", "\"1e999\"", "\"-\"", "'2147483648'",
    // slices whose range ends at the integer boundary (extent arithmetic)
    "(\"abc\" <~ 0..2147483646)", "(\"abc\" <~ 0..2147483647)", "(\"abc\" <~ 3..(--2147483647))", "(\"abc\" <~ (--2147483647 - 1)..2147483647)", "((1 2 3) <~ 0..2147483647)", "('abc' <~ (--2147483647)..2147483646)",
];

fn pool() -> Vec<&'static str> {
    let mut p: Vec<&'static str> = VALUE_POOL.to_vec();
    p.extend_from_slice(BOUNDARY_POOL);
    p
}

fn ops() -> Vec<&'static str> {
    let mut o: Vec<&'static str> = BINARY_OPS.to_vec();
    o.extend_from_slice(&["`f`"]);
    o
}

/// leaves of the two-level compositions: one or two values per type, plus every "awkward extent" (reversed, negative
/// start, end past the end) of a slice of each sliceable kind
pub const COMPOSE_LEAVES: &[&str] = &[
    "5", "0", "(--1)", "2.5", "\"abé\"", "\"\"", "'ab'", "''", ":a", ":a.b", "(1 2 3)", "(,)", "(:a = 1, 5)", ":k = 1", "(1..2)", "(2..0)", "(--1..1)", "(0..99)", "((1 2) <> (3 4))", "(1 <> 2 <> 3)", "(\"ab\" <> \"c\")", "{ $ }",
    "()", "(#5)", "$",
    "((1 2 3 4) <~ 1..2)", "((1 2 3 4) <~ 2..0)", "((1 2 3 4) <~ --1..1)", "((1 2 3 4) <~ 2..99)",
    "((1 <> 2 <> 3) <~ 0..1)", "((1 <> 2 <> 3) <~ 2..0)", "((1 <> 2 <> 3) <~ --1..1)", "((1 <> 2 <> 3) <~ 1..99)",
    "(\"aébc\" <~ 1..2)", "(\"aébc\" <~ 2..0)", "(\"aébc\" <~ --1..1)", "(\"aébc\" <~ 2..99)",
    "('abcd' <~ 1..2)", "('abcd' <~ 2..0)", "('abcd' <~ --1..1)", "('abcd' <~ 2..99)",
    "(:a.b.c <~ 0..1)", "(:a.b.c <~ 2..0)", "(:a.b.c <~ 1..99)",
    // starting past the end
    "((1 2 3 4) <~ 6..7)", "((1 <> 2 <> 3) <~ 5..5)", "(\"aébc\" <~ 5..5)", "('abcd' <~ 9..12)", "(:a.b.c <~ 4..4)",
    // reversed by more than the length of the data
    "((1 2 3 4) <~ 3..0)", "((1 <> 2 <> 3) <~ 9..0)", "(\"aébc\" <~ 3..0)", "('abcd' <~ 9..1)", "(:a.b.c <~ 5..0)",
];
/// operators that build a compound value from two operands
pub const COMPOSE_BUILD: &[&str] = &["<>", "<~", "=", ",", " ", "..", "~#", "."];
/// operators that walk into their operands
pub const COMPOSE_USE: &[&str] = &["==", "!=", "<", "~#", ".", "<~", "<>", "~>", "+", "=", "#="];
pub const COMPOSE_UNARY: &[&str] = &[".|", "._", "~~"];
/// partners of the compound value: one representative per type
pub const COMPOSE_PARTNERS: &[&str] = &["5", "\"ab\"", "'ab'", ":a", "(1 2 3)", "(:a = 1, 5)", "(0..1)", "(1 <> 2 <> 3)", "((1 2 3 4) <~ 1..2)", "((1 <> 2 <> 3) <~ 0..1)", "(#\"\")", "(#(,))", "(#:a)", "(#'')"];

pub fn compose_count() -> u64 {
    let l = COMPOSE_LEAVES.len() as u64;
    let level1 = l * l * COMPOSE_BUILD.len() as u64;
    level1 * (COMPOSE_PARTNERS.len() as u64 * COMPOSE_USE.len() as u64 * 2 + COMPOSE_UNARY.len() as u64 + 1)
}

/// `(a build b) use c`, `c use (a build b)`, `(a build b) suffix`, `_. (a build b)`
pub fn compose_program(i: u64) -> String {
    let l = COMPOSE_LEAVES.len() as u64;
    let per = COMPOSE_PARTNERS.len() as u64 * COMPOSE_USE.len() as u64 * 2 + COMPOSE_UNARY.len() as u64 + 1;
    let (x, k) = (i / per, i % per);
    let b1 = COMPOSE_BUILD[(x % COMPOSE_BUILD.len() as u64) as usize];
    let r = x / COMPOSE_BUILD.len() as u64;
    let (a, b) = (COMPOSE_LEAVES[(r / l) as usize], COMPOSE_LEAVES[(r % l) as usize]);
    let inner = if b1 == " " { format!("({} {})", a, b) } else { format!("({} {} {})", a, b1, b) };
    let binary = COMPOSE_PARTNERS.len() as u64 * COMPOSE_USE.len() as u64 * 2;
    if k < binary {
        let side = k % 2;
        let u = COMPOSE_USE[((k / 2) % COMPOSE_USE.len() as u64) as usize];
        let c = COMPOSE_PARTNERS[((k / 2) / COMPOSE_USE.len() as u64) as usize];
        if side == 0 { format!("{} {} {}", inner, u, c) } else { format!("{} {} {}", c, u, inner) }
    } else if k - binary < COMPOSE_UNARY.len() as u64 {
        format!("{} {}", inner, COMPOSE_UNARY[(k - binary) as usize])
    } else {
        format!("_. {}", inner)
    }
}

pub fn deep(n: usize, kind: usize) -> String {
    match kind {
        0 => format!("{}5{}", "(".repeat(n), ")".repeat(n)),
        1 => format!("{}5{}{}", "{".repeat(n), "}".repeat(n), "~~".repeat(n)),
        2 => vec!["5"; n].join(" = "),
        3 => format!("{} == {}", vec!["(1"; n].join(" ") + &")".repeat(n), vec!["(1"; n].join(" ") + &")".repeat(n)),
        4 => vec!["(1 2)"; n].join(" <> "),
        5 => format!("{} == {}", vec!["(1 2)"; n].join(" <> "), vec!["(1 2)"; n].join(" <> ")),
        6 => format!("({}) ~# \"\"", vec!["(1 2)"; n].join(" <> ")),
        7 => format!("{}", vec![":a"; n.min(120)].join(".")),
        8 => format!("({}) .|", vec!["1"; n].join(" ")),
        // concatenations nested to the left and to the right: measured, indexed, looked up in, cast, compared
        9 => format!("({}) .|", vec!["1"; n].join(" <> ")),
        10 => format!("({}) . {}", vec!["1"; n].join(" <> "), n / 2),
        11 => format!("({}{}) .|", "1 <> (".repeat(n.saturating_sub(1)), format!("1{}", ")".repeat(n.saturating_sub(1)))),
        12 => format!("({}{}) . {}", "1 <> (".repeat(n.saturating_sub(1)), format!("1{}", ")".repeat(n.saturating_sub(1))), n / 2),
        13 => format!("({}{}) ~# (,)", "1 <> (".repeat(n.saturating_sub(1)), format!("1{}", ")".repeat(n.saturating_sub(1)))),
        14 => format!("({}{}) . zz", "(:a = 1) <> (".repeat(n.saturating_sub(1)), format!("(:b = 2){}", ")".repeat(n.saturating_sub(1)))),
        15 => {
            let right = format!("({}{})", "1 <> (".repeat(n.saturating_sub(1)), format!("1{}", ")".repeat(n.saturating_sub(1))));
            format!("{} == ({})", right, vec!["1"; n].join(" <> "))
        }
        _ => format!("{}1{}", "(1 = ".repeat(n), ")".repeat(n)),
    }
}

pub const DEEP_KINDS: usize = 17;
pub const DEEP_KIND_NAMES: [&str; 17] = [
    "nested-groups", "nested-applied-expressions", "pair-chain", "nested-lists-compared", "concatenation-of-lists", "concatenations-of-lists-compared", "concatenation-of-lists-cast-to-text", "symbol-chain", "long-list-measured",
    "left-nested-concatenation-measured", "left-nested-concatenation-indexed", "right-nested-concatenation-measured", "right-nested-concatenation-indexed", "right-nested-concatenation-cast-to-list", "right-nested-concatenation-looked-up-in",
    "right-and-left-nested-concatenations-compared", "nested-pairs",
];
pub const DEEP_SIZES: &[usize] = &[1, 2, 8, 50, 150, 400, 2000];
/// stack of the thread deep data is built and executed on (the runtime works on the data object's own stacks; stack use
/// growing with the depth of a value overflows this at the larger sizes and aborts the worker)
pub const DEEP_STACK: usize = 256 * 1024;

/// like `execute_all`, but build and run happen on a thread with a small stack; the result is read back (by the harness's
/// own recursive reader) on the normal stack
pub fn execute_deep(text: &str, ctx: &mut CaseCtx, max_steps: usize) {
    ctx.render(|| format!("{:?}", if text.len() > 120 { format!("{}… ({} bytes)", &text[..100], text.len()) } else { text.to_string() }));
    let parsed = match front_end(text, None) {
        Ok(p) => p,
        Err(_) => {
            ctx.class("not-accepted");
            return;
        }
    };
    let input = V::List(vec![pair(sym("k"), V::Int(3)), V::Int(5)]);
    fn on_small_stack<D: GD + Send>(d: &mut D, parsed: &garnish_lang_compiler::parse::ParseResult, input: &V, max_steps: usize) -> Result<usize, (&'static str, Panicked)> {
        std::thread::scope(|sc| {
            std::thread::Builder::new()
                .stack_size(DEEP_STACK)
                .spawn_scoped(sc, || {
                    let b = match build_g(parsed, d) {
                        Err(p) => return Err(("build", p)),
                        Ok(Err(_)) => return Ok(0),
                        Ok(Ok(b)) => b,
                    };
                    let ia = match guard("store", || value::build_value(d, input)) {
                        Err(p) => return Err(("store", p)),
                        Ok(Err(_)) => return Ok(0),
                        Ok(Ok(a)) => a,
                    };
                    match run_program(d, *b.jump_index(), Some(ia), max_steps) {
                        RunEnd::Panic(p) => Err(("run", p)),
                        RunEnd::Finished(n) => Ok(n),
                        RunEnd::Error(_) => Ok(3),
                        RunEnd::StepLimit => Ok(max_steps),
                    }
                })
                .expect("spawn deep-data thread")
                .join()
                .expect("deep-data thread")
        })
    }
    let mut executed = 0usize;
    for imp in Impl::BOTH {
        ctx.sub_evals += 1;
        let outcome = match imp {
            Impl::Simple => {
                let mut d = new_simple_hosted(HostState::default());
                let r = on_small_stack(&mut d, &parsed, &input, max_steps);
                if r.is_ok() {
                    if let Some(a) = garnish_lang_traits::GarnishData::get_current_value(&d) {
                        if let Err(p) = guard("readback", || value::readback(&d, a)) {
                            ctx.fail(format!("readback-panic@{}", p.loc), format!("{} on Simple: {}", text.len(), p.msg));
                        }
                    }
                }
                r
            }
            Impl::Basic => {
                let mut d = new_basic_hosted(HostState::default());
                let r = on_small_stack(&mut d, &parsed, &input, max_steps);
                if r.is_ok() {
                    if let Some(a) = garnish_lang_traits::GarnishData::get_current_value(&d) {
                        if let Err(p) = guard("readback", || value::readback(&d, a)) {
                            ctx.fail(format!("readback-panic@{}", p.loc), format!("{} on Basic: {}", text.len(), p.msg));
                        }
                    }
                }
                r
            }
        };
        match outcome {
            Ok(steps) => executed = executed.max(steps),
            Err((stage, p)) => ctx.fail(format!("{}-panic@{}", stage, p.loc), format!("program of {} bytes on {}: {} panicked: {}", text.len(), imp.name(), stage, p.msg)),
        }
    }
    if executed >= 3 {
        ctx.class("executed");
        ctx.nontrivial(fnv(text.as_bytes()));
    }
}

/// run `text` on both implementations under three host modes; report panics
pub fn execute_all(text: &str, ctx: &mut CaseCtx, max_steps: usize) {
    ctx.render(|| format!("{:?}", text));
    let parsed = match front_end(text, None) {
        Ok(p) => p,
        Err(_) => {
            ctx.class("not-accepted");
            return;
        }
    };
    let input = V::List(vec![pair(sym("k"), V::Int(3)), V::Int(5)]);
    let hosts = [
        HostState::default(),
        HostState { defer_answer: Some(4242), resolve_script: vec![(garnish_lang_simple_data::symbol_value("f"), 7), (garnish_lang_simple_data::symbol_value("u"), 2147483647)], ..HostState::default() },
    ];
    let mut executed = 0usize;
    for (hi, host) in hosts.iter().enumerate() {
        for imp in Impl::BOTH {
            ctx.sub_evals += 1;
            let outcome = match imp {
                Impl::Simple => {
                    let mut d = new_simple_hosted(host.clone());
                    run_one(&mut d, &parsed, &input, max_steps)
                }
                Impl::Basic => {
                    let mut d = new_basic_hosted(host.clone());
                    run_one(&mut d, &parsed, &input, max_steps)
                }
            };
            match outcome {
                Ok(steps) => executed = executed.max(steps),
                Err((stage, p)) => {
                    ctx.fail(format!("{}-panic@{}", stage, p.loc), format!("{:?} on {} (host mode {}): {} panicked: {}", text, imp.name(), hi, stage, p.msg));
                }
            }
        }
    }
    if executed >= 3 {
        ctx.class("executed");
        ctx.nontrivial(fnv(text.as_bytes()));
    } else {
        ctx.class("built-or-trivial");
    }
}

pub fn run_one<D: GD>(d: &mut D, parsed: &garnish_lang_compiler::parse::ParseResult, input: &V, max_steps: usize) -> Result<usize, (&'static str, Panicked)> {
    let b = match build_g(parsed, d) {
        Err(p) => return Err(("build", p)),
        Ok(Err(_)) => return Ok(0),
        Ok(Ok(b)) => b,
    };
    let ia = match guard("store", || value::build_value(d, input)) {
        Err(p) => return Err(("store", p)),
        Ok(Err(_)) => return Ok(0),
        Ok(Ok(a)) => a,
    };
    match run_program(d, *b.jump_index(), Some(ia), max_steps) {
        RunEnd::Panic(p) => Err(("run", p)),
        RunEnd::Finished(n) => {
            // reading the result back must not panic either
            if let Some(a) = garnish_lang_traits::GarnishData::get_current_value(d) {
                if let Err(p) = guard("readback", || value::readback(d, a)) {
                    return Err(("readback", p));
                }
            }
            Ok(n)
        }
        RunEnd::Error(_) => Ok(3),
        RunEnd::StepLimit => Ok(max_steps),
    }
}

impl Check for C07Check {
    fn id(&self) -> &'static str {
        "C07"
    }
    fn rule(&self) -> String {
        format!(
            "Phase operators-on-boundary-values: every binary operator ({} spellings incl. ranges, concatenation, cast, partial, apply forms, backtick infix) applied to every ordered pair of a pool of {} operand values of every type and shape plus boundary literals (i32 limits, 1e308, 1e999, zeros, subnormal, shift counts 31/32/33/-1, empty and multi-byte text and bytes, reversed / negative / fractional / huge ranges and slices), and every prefix/suffix operator on each; \
             phase deep-data: nested groups, nested applied expressions, pair chains, nested and long lists, concatenations nested to the left and to the right measured / indexed / looked up in / cast / compared, at depths up to 2000, built and run on a thread with a 256 KiB stack (stack use growing with the depth of a value aborts the worker); phases class-sequences (L<=4), token-soups, random operator expressions (all operators) and random core ASTs: every accepted program is executed. \
             Each program runs on SimpleGarnishData and BasicGarnishData, without host callbacks and with callbacks that accept deferred operations and resolve identifiers, for at most 3000 steps, and its result is read back. Oracle: no step unwinds (catch_unwind) and no worker aborts; Err results are fine. \
             Non-trivial = at least 3 instructions executed; distinct = distinct program texts.",
            ops().len(),
            pool().len()
        )
    }
    fn assumptions(&self) -> Vec<String> {
        vec!["harness built with debug assertions and overflow checks on, as a host in a debug build would see".into()]
    }
    fn phases(&self, tier: Tier) -> Vec<Phase> {
        let p = pool().len() as u64;
        let o = ops().len() as u64;
        vec![
            Phase::exhaustive("operators-on-boundary-values", p * p * o + p * (PREFIX_OPS.len() + SUFFIX_OPS.len()) as u64).with_chunk(2048),
            Phase::exhaustive("deep-data", (DEEP_KINDS * DEEP_SIZES.len()) as u64).with_chunk(1).with_deadline_ms(30_000),
            Phase::exhaustive("class-sequences", class_sequence_count(tier.pick(4, 5))).with_chunk(8192),
            Phase::random("token-soups", tier.pick(60_000, 2_000_000), 120).with_min_tape(6).with_chunk(1024),
            Phase::random("random-operator-expressions", tier.pick(60_000, 2_000_000), 96).with_min_tape(16).with_chunk(1024),
            Phase::random("random-core-asts", tier.pick(40_000, 1_000_000), 160).with_min_tape(24).with_chunk(512),
            Phase::exhaustive("repetition", repetition_corpus().len() as u64).with_chunk(16),
            // quick: every 3rd composition (the index is scrambled by a stride coprime to the space), thorough: all
            Phase::exhaustive("two-level-compositions", compose_count() / tier.pick(4, 1)).with_chunk(4096),
        ]
    }
    fn abort_label(&self, _tier: Tier, phase: usize, input: &Input) -> Option<String> {
        match (phase, input) {
            (1, Input::Index(i)) => Some(format!("deep-data:{}", DEEP_KIND_NAMES[*i as usize / DEEP_SIZES.len()])),
            _ => None,
        }
    }
    fn render(&self, _tier: Tier, phase: usize, input: &Input) -> String {
        match (phase, input) {
            (1, Input::Index(i)) => format!("deep data: {} at n = {}", DEEP_KIND_NAMES[*i as usize / DEEP_SIZES.len()], DEEP_SIZES[*i as usize % DEEP_SIZES.len()]),
            _ => format!("{:?}", input),
        }
    }
    fn run(&self, tier: Tier, phase: usize, input: &Input, ctx: &mut CaseCtx) {
        match (phase, input) {
            (_, Input::Text(s)) => execute_all(s, ctx, 3000),
            (6, Input::Index(i)) => execute_all(&repetition_corpus()[*i as usize], ctx, 3000),
            (7, Input::Index(i)) => {
                ctx.class("two-level-composition");
                // quick takes every 4th index, offset by the seed-independent position so that all residues of the
                // innermost digits (partner, operator, side) occur
                let j = match tier {
                    Tier::Quick => *i * 4 + *i % 4,
                    Tier::Thorough => *i,
                };
                execute_all(&compose_program(j.min(compose_count() - 1)), ctx, 2000);
            }
            (0, Input::Index(i)) => {
                let p = pool();
                let o = ops();
                let n = p.len() as u64;
                let nb = n * n * o.len() as u64;
                let src = if *i < nb {
                    let op = o[(*i % o.len() as u64) as usize];
                    let r = *i / o.len() as u64;
                    let (a, b) = (p[(r / n) as usize], p[(r % n) as usize]);
                    if op == " " { format!("{} {}", a, b) } else { format!("{} {} {}", a, op, b) }
                } else {
                    let j = *i - nb;
                    let k = (PREFIX_OPS.len() + SUFFIX_OPS.len()) as u64;
                    let v = p[(j / k) as usize];
                    let oi = (j % k) as usize;
                    if oi < PREFIX_OPS.len() { format!("{} {}", PREFIX_OPS[oi], v) } else { format!("{} {}", v, SUFFIX_OPS[oi - PREFIX_OPS.len()]) }
                };
                ctx.class("operator-on-values");
                execute_all(&src, ctx, 3000);
            }
            (1, Input::Index(i)) => {
                let kind = *i as usize / DEEP_SIZES.len();
                let n = DEEP_SIZES[*i as usize % DEEP_SIZES.len()];
                ctx.class("deep-data");
                execute_deep(&deep(n, kind), ctx, 100_000);
            }
            (2, Input::Index(i)) => execute_all(&class_sequence(*i, tier.pick(4, 5)), ctx, 300),
            (3, Input::Tape(t)) => execute_all(&token_soup(&mut Tape::new(t), 40), ctx, 2000),
            (4, Input::Tape(t)) => execute_all(&c02::random_source(t), ctx, 2000),
            (5, Input::Tape(t)) => {
                let mut t = Tape::new(t);
                let ast = astgen::random_ast(&mut t, 6);
                if let Some((toks, _, _)) = astgen::printable(&ast) {
                    // replace some number literals by boundary literals
                    let mut text = render(&toks, if t.flag() { Layout::Spaced } else { Layout::Tight });
                    for lit in ["2147483647", "31", "0.5", "7"] {
                        if t.chance(90) {
                            let b = BOUNDARY_POOL[t.choose(20)];
                            text = text.replacen(lit, b, 1);
                        }
                    }
                    execute_all(&text, ctx, 3000);
                }
            }
            _ => {}
        }
    }
}
