//! C17 — host extension points are called exactly as documented.

use crate::checks::c01::{Verdict, inputs};
use crate::checks::hostrun::judge_hosted_mode;
use crate::engine::core::*;
use crate::engine::tape::{Tape, fnv};
use crate::model::astgen::{self, Alphabet};
use crate::model::data::*;
use crate::model::hosts::HostState;
use crate::model::refparse::{Layout, Tok, render};
use crate::model::sx::Sx;
use crate::model::value::{V, pair, sym};
use garnish_lang_simple_data::symbol_value;

pub struct C17Check;
pub static C17: C17Check = C17Check;

pub const HOSTED: Alphabet = Alphabet {
    leaves: &[("Identifier", "a"), ("Identifier", "b"), ("Identifier", "f"), ("Identifier", "g"), ("Identifier", "k"), ("Number", "1"), ("Value", "$"), ("True", "$?"), ("Unit", "()")],
    unary: &["EmptyApply", "NestedExpression", "Not"],
    binary: &["Apply", "ApplyTo", "JumpIfTrue", "ElseJump", "And", "Or", "Pair", "List", "Addition", "ExpressionSeparator", "BlockBefore", "BlockAfter"],
};

pub fn hosted_input() -> V {
    V::List(vec![pair(sym("k"), V::Int(3)), pair(sym("f"), V::External(7)), pair(sym("g"), V::External(8))])
}

/// the same associations as a concatenation nested to the right (what a partially applied expression runs with)
pub fn hosted_input_concatenated() -> V {
    V::Concat(Box::new(pair(sym("k"), V::Int(3))), Box::new(V::Concat(Box::new(pair(sym("f"), V::External(7))), Box::new(pair(sym("g"), V::External(8))))))
}

pub fn hosts() -> Vec<(&'static str, HostState)> {
    let s = |names: &[&str], apply: &[(usize, i32)]| HostState {
        resolve_script: names.iter().enumerate().map(|(i, n)| (symbol_value(n), 1000 + i as i32)).collect(),
        apply_script: apply.to_vec(),
        ..HostState::default()
    };
    vec![
        ("resolves-none,declines-externals", s(&[], &[])),
        ("resolves-a,answers-external-7", s(&["a", "u"], &[(7, 70)])),
        ("resolves-b-j,answers-external-7", s(&["b", "j"], &[(7, 70)])),
        ("resolves-all,answers-both-externals", s(&["a", "b", "u", "j", "z", "f", "g", "k"], &[(7, 70), (8, 80)])),
    ]
}

fn externals_of(state: &HostState) -> Vec<(usize, Option<i32>)> {
    vec![(7, state.apply_script.iter().find(|(e, _)| *e == 7).map(|(_, n)| *n)), (8, state.apply_script.iter().find(|(e, _)| *e == 8).map(|(_, n)| *n))]
}

fn root_def(ast: &Sx) -> String {
    match ast {
        Sx::Node(d, _, _) | Sx::ValNode(d, _, _, _) | Sx::Leaf(d, _) => d.clone(),
        _ => "?".into(),
    }
}

impl C17Check {
    fn judge(&self, ast: &Sx, input: &V, layouts: &[Layout], ctx: &mut CaseCtx) {
        let (toks, reference, _) = match astgen::printable(ast) {
            Some(x) => x,
            None => {
                ctx.class("not-printable");
                return;
            }
        };
        ctx.render(|| format!("{:?} with $ = {}", render(&toks, layouts[0]), input));
        let idents = toks.iter().filter(|t| matches!(t, Tok::Atom("Identifier", _))).count();
        let mut judged = false;
        let mut max_calls = 0usize;
        let mut from_input = false;
        for layout in layouts {
            let text = render(&toks, *layout);
            for (hname, state) in hosts() {
                // SimpleGarnishData also as a copy made after the build (build once, copy per execution), for small programs
                let small = toks.len() <= 9;
                for (imp, on_copy) in [(Impl::Simple, false), (Impl::Basic, false), (Impl::Simple, true)] {
                    if on_copy && !small {
                        continue;
                    }
                    ctx.sub_evals += 1;
                    let mut used = vec![];
                    match judge_hosted_mode(imp, on_copy, &text, &toks, &reference, input, &state, &mut used, &externals_of(&state)) {
                        Verdict::Agree => {
                            judged = true;
                            if used.contains(&"identifier-from-input") {
                                from_input = true;
                            }
                            // count the reference's host events for the non-triviality rule
                            let host = crate::model::hosts::reference_host(&state);
                            let mut ev = crate::model::refeval::Eval::new(&host, 5000);
                            if ev.run(&reference, input.clone()).is_ok() {
                                max_calls = max_calls.max(ev.trace.len());
                            }
                        }
                        Verdict::Skip(w) => ctx.class(if w == "layout-merge" { "layout-merge" } else { "reference-undefined" }),
                        Verdict::Fail(kind, detail) => {
                            judged = true;
                            ctx.fail(format!("{}:{}", kind, root_def(ast)), format!("{:?} with $ = {} under host {} on {}{}: {}", text, input, hname, imp.name(), if on_copy { " (run on a clone_with_aux_without_data copy made after the build)" } else { "" }, detail));
                        }
                    }
                }
            }
        }
        if judged {
            ctx.class("judged");
            if max_calls >= 2 && from_input && idents >= 2 {
                ctx.nontrivial(fnv(format!("{}|{}", ast, input).as_bytes()));
                ctx.class("two-host-calls-and-an-input-lookup");
            }
        }
    }
}

impl Check for C17Check {
    fn id(&self) -> &'static str {
        "C17"
    }
    fn rule(&self) -> String {
        "Phase exhaustive: every AST with at most k nodes (k=5 quick, 6 thorough) over identifiers a, b (unknown to the input), f, g (bound to External values in the input), k (bound to a number in the input), `1`, `$`, `$?`, `()` and the constructs `~~`, `{ }`, `!!`, `<~`, `~>`, `?>`, `|>`, `&&`, `||`, `=`, space list, `+`, `;`, a side-effect block before or after a value, \
         run with the input (:k = 3, :f = external 7, :g = external 8) (ASTs of up to 4 nodes also with the same associations as a concatenation nested to the right) under 4 scripted recording hosts (resolving none / some / all identifiers, answering external 7 only / both / none) on both data implementations (programs of up to 9 tokens also on a clone_with_aux_without_data copy of the SimpleGarnishData they were built into); phase random: larger core-language ASTs with identifiers in every position, inputs of C01, spaced and tight layout. \
         Oracle: the host's call trace (resolve(symbol) and, on BasicGarnishData, apply(external, argument read back)) equals the reference evaluator's event trace in order and multiplicity — input lookup first, one resolve per evaluated unresolved occurrence, one apply per applied external — and the final value equals the reference value (declined => unit, accepted => exactly the host's value). \
         Non-trivial = judged program with >= 2 identifier occurrences, >= 2 reference host events under some host and at least one identifier answered from the input; distinct = distinct (AST, input)."
            .to_string()
    }
    fn assumptions(&self) -> Vec<String> {
        vec![
            "SimpleGarnishData exposes no external-apply hook: applying an external there yields unit without a host call (the statement scopes external apply to BasicGarnishData)".into(),
            "host answers are numbers pushed with add_number + push_register, as the README example does".into(),
        ]
    }
    fn phases(&self, tier: Tier) -> Vec<Phase> {
        vec![
            Phase::exhaustive("exhaustive-hosted-asts", HOSTED.count_up_to(tier.pick(5, 6))).with_chunk(512),
            Phase::random("random-asts", tier.pick(80_000, 1_000_000), 160).with_min_tape(24).with_chunk(256),
        ]
    }
    fn run(&self, tier: Tier, phase: usize, input: &Input, ctx: &mut CaseCtx) {
        match (phase, input) {
            (0, Input::Index(i)) => {
                if let Some(ast) = HOSTED.unrank(*i, tier.pick(5, 6)) {
                    ctx.class("exhaustive");
                    self.judge(&ast, &hosted_input(), &[Layout::Spaced], ctx);
                    if ast.size() <= 4 {
                        ctx.class("exhaustive-with-concatenated-input");
                        self.judge(&ast, &hosted_input_concatenated(), &[Layout::Spaced], ctx);
                    }
                }
            }
            (1, Input::Tape(t)) => {
                let mut t = Tape::new(t);
                let all = inputs();
                let input = all[t.choose(all.len())].clone();
                let ast = astgen::random_ast(&mut t, 5);
                ctx.class("random");
                self.judge(&ast, &input, &[Layout::Spaced, Layout::Tight], ctx);
            }
            _ => {}
        }
    }
}
