//! C06 — evaluation is stack-balanced on every path.

use crate::checks::c02;
use crate::checks::c05::{build_with_extent, has_empty_group, triple_source};
use crate::engine::core::*;
use crate::engine::tape::{Tape, fnv};
use crate::model::data::*;
use crate::model::optable;
use crate::model::pipeline::*;
use crate::model::stream::*;
use crate::model::value::V;
use crate::model::valuepool;
use garnish_lang_compiler::lex::TokenType;
use garnish_lang_runtime::{SimpleRuntimeState, execute_current_instruction};
use garnish_lang_traits::Instruction;

pub struct C06Check;
pub static C06: C06Check = C06Check;

pub const REAPPLY_FAMILY: &[&str] = &[
    "{ $ < N ?> ^~ $ + 1 } <~ 0",
    "{ $ < N ?> ^~ $ + 1 |> $ * 2 } <~ 0",
    "{ $ >= N !> ^~ $ + 1 } <~ 0",
    "{ $.c < N ?> ^~ :c = $.c + 1 :r = $.r * 2 } <~ :c = 0 :r = 1",
    "{ $ < N && $ >= 0 ?> ^~ $ + 1 |> $ } <~ 0",
    "{ [ $ + 1 ] $ < N ?> ^~ $ + 1 |> (1 2 3) } <~ 0",
    "{ $ < N ?> ^~ { $ + 1 } <~ $ } <~ 0",
    "0 ~> { $ < N ?> ^~ ($ + 1) }",
];
pub const REAPPLY_COUNTS: &[u32] = &[0, 1, 2, 3, 7, 25];

pub struct DynReport {
    pub faults: Vec<Fault>,
    pub steps: usize,
    pub finished: bool,
    pub max_operands: i64,
    pub paths: usize,
}

fn value_depth<D: GD + Clone>(d: &D) -> usize {
    let mut c = d.clone();
    let mut n = 0;
    while c.pop_value_stack().is_some() {
        n += 1;
        if n > 100_000 {
            break;
        }
    }
    n
}

fn frame_depth<D: GD + Clone>(d: &D) -> usize {
    let mut c = d.clone();
    let mut n = 0;
    while let Ok(Some(_)) = c.pop_frame() {
        n += 1;
        if n > 100_000 {
            break;
        }
    }
    n
}

/// Step the program; after every step the change of the operand count must equal the instruction's abstract effect.
pub fn run_dynamic<D: GD + Clone>(d: &mut D, ext: &Extent, frames_in_registers: bool, max_steps: usize) -> DynReport {
    run_dynamic_with(d, ext, frames_in_registers, max_steps, None)
}

/// the input value identifiers are looked up in on the second dynamic run: names bound to unit, a number, a list and an
/// expression, so that a look-up that succeeds (also with a unit value) is exercised, not only the one that asks the host
pub fn binding_input() -> V {
    use crate::model::value::{pair, sym};
    V::List(vec![pair(sym("a"), V::Unit), pair(sym("b"), V::Int(5)), pair(sym("k"), V::List(vec![V::Int(1), V::Int(2)])), pair(sym("u"), V::Unit), pair(sym("f"), V::Int(7)), V::Int(9)])
}

pub fn run_dynamic_with<D: GD + Clone>(d: &mut D, ext: &Extent, frames_in_registers: bool, max_steps: usize, input: Option<&V>) -> DynReport {
    let mut rep = DynReport { faults: vec![], steps: 0, finished: false, max_operands: 0, paths: 0 };
    let start = match d.get_from_jump_table(ext.entry) {
        Some(s) => s,
        None => return rep,
    };
    if d.set_instruction_cursor(start).is_err() {
        return rep;
    }
    let reg0 = d.get_register_len() as i64;
    let unit = match input {
        None => match d.add_unit() {
            Ok(u) => u,
            Err(_) => return rep,
        },
        Some(v) => match crate::model::value::build_value(d, v) {
            Ok(a) => a,
            Err(_) => return rep,
        },
    };
    let v0 = value_depth(d);
    if d.push_value_stack(unit).is_err() {
        return rep;
    }
    let f0 = frame_depth(d);
    let data_cap = d.get_data_len() + 4_000;
    let mut frames: Vec<i64> = vec![]; // operand count at callee entry
    let mut vs_expected: i64 = v0 as i64 + 1;
    let oc = |d: &D, frames: &Vec<i64>| -> i64 { d.get_register_len() as i64 - reg0 - if frames_in_registers { frames.len() as i64 } else { 0 } };
    let fail = |rep: &mut DynReport, sig: String, detail: String| {
        if rep.faults.len() < 4 && !rep.faults.iter().any(|f| f.sig == sig) {
            rep.faults.push(Fault { sig, detail });
        }
    };
    loop {
        // a loop that builds an ever larger value is cut like one that runs too long: the stores' per-step cost grows with
        // their size, so a step bound alone is no work bound
        if rep.steps % 16 == 0 && d.get_data_len() > data_cap {
            return rep;
        }
        if rep.steps >= max_steps {
            return rep;
        }
        let pc = d.get_instruction_cursor();
        let (ins, arg) = match d.get_instruction(pc) {
            Some(x) => x,
            None => return rep,
        };
        let before = oc(d, &frames);
        // exactly one pending where an expression ends
        if ins == Instruction::EndExpression {
            let base = frames.last().copied().unwrap_or(0);
            if before != base + 1 {
                fail(&mut rep, format!("dynamic:end-of-expression-depth:{}", if before < base + 1 { "nothing-pending" } else { "extra-pending" }), format!("EndExpression at instruction {} executed with {} pending operands in its frame (must be exactly 1)", pc, before - base));
                if before < base + 1 {
                    return rep; // executing it would underflow into the caller's operands
                }
            }
        }
        let r = guard("run", || execute_current_instruction(d));
        rep.steps += 1;
        let info = match r {
            Err(p) => {
                fail(&mut rep, format!("run-panic@{}", p.loc), p.msg);
                return rep;
            }
            Ok(Err(e)) => {
                let m = e.to_string();
                if m.contains("No references in register") || m.contains("Could not pop") || m.contains("No inputs available") || m.contains("Failed to pop input") || m.contains("Not enough register values") {
                    fail(&mut rep, format!("dynamic:underflow-error:{:?}", ins), format!("{:?} at instruction {} failed with {:?} ({} operands were pending)", ins, pc, m, before));
                }
                return rep;
            }
            Ok(Ok(i)) => i,
        };
        let ended = info.get_state() == SimpleRuntimeState::End;
        let new_pc = d.get_instruction_cursor();
        let jumped = !ended && new_pc != pc + 1;
        let mut expected: Option<i64> = None;
        match ins {
            Instruction::Apply | Instruction::EmptyApply => {
                let pops = if ins == Instruction::Apply { 2 } else { 1 };
                if jumped {
                    frames.push(before - pops);
                    vs_expected += 1;
                    expected = Some(before - pops);
                } else {
                    expected = Some(before - pops + 1);
                }
            }
            Instruction::EndExpression => {
                if let Some(base) = frames.pop() {
                    vs_expected -= 1;
                    expected = Some(base + 1);
                } else {
                    // root ended
                    rep.finished = true;
                }
            }
            Instruction::JumpIfTrue | Instruction::JumpIfFalse => {
                expected = Some(before - 1);
                rep.paths += 1;
            }
            Instruction::And | Instruction::Or => {
                expected = Some(if jumped { before - 1 } else { before });
                rep.paths += 1;
            }
            Instruction::JumpTo => expected = Some(before),
            Instruction::StartSideEffect => {
                vs_expected += 1;
                expected = Some(before);
            }
            Instruction::EndSideEffect => {
                vs_expected -= 1;
                expected = Some(before - 1);
            }
            Instruction::PushValue => {
                vs_expected += 1;
                expected = Some(before - 1);
            }
            other => {
                if let Some((pops, pushes)) = effect(other, arg) {
                    expected = Some(before - pops + pushes);
                }
            }
        }
        if !rep.finished {
            if let Some(e) = expected {
                let after = oc(d, &frames);
                rep.max_operands = rep.max_operands.max(after);
                if after != e {
                    fail(
                        &mut rep,
                        format!("dynamic:effect-mismatch:{:?}:{}", ins, if after > e { "leaves-extra" } else { "takes-too-many" }),
                        format!("{:?} at instruction {} changed the number of pending operands from {} to {} (its effect is {} -> {})", ins, pc, before, after, before, e),
                    );
                    return rep;
                }
            }
        }
        if ended || rep.finished {
            // everything back to the initial depths
            let regs = d.get_register_len() as i64 - reg0;
            if regs != 0 {
                fail(&mut rep, "dynamic:operands-left-at-end".into(), format!("{} operands remain on the operand stack after the program ended", regs));
            }
            let vd = value_depth(d) as i64;
            if rep.finished && vd != v0 as i64 + 1 {
                fail(&mut rep, format!("dynamic:value-stack-depth-at-end:{}", if vd > v0 as i64 + 1 { "deeper" } else { "shallower" }), format!("input-value stack depth is {} after the program ended, it was {} at the start (bookkeeping expected {})", vd, v0 + 1, vs_expected));
            }
            let fd = frame_depth(d);
            if rep.finished && fd != f0 {
                fail(&mut rep, "dynamic:frames-left-at-end".into(), format!("{} call frames remain after the program ended", fd as i64 - f0 as i64));
            }
            return rep;
        }
    }
}

/// Constructs with a recorded open finding; the first one present keys the signature so that the search continues behind it.
pub fn known_construct(tokens: &[garnish_lang_compiler::lex::LexerToken], parsed: &garnish_lang_compiler::parse::ParseResult) -> Option<&'static str> {
    use garnish_lang_compiler::parse::Definition as D;
    let nodes = parsed.get_nodes();
    if nodes.is_empty() {
        return Some("empty-program");
    }
    if has_empty_group(tokens) {
        return Some("empty-group");
    }
    let sig: Vec<TokenType> = tokens.iter().map(|t| t.get_token_type()).filter(|t| !matches!(t, TokenType::Whitespace | TokenType::Annotation | TokenType::LineAnnotation | TokenType::Subexpression | TokenType::ExpressionSeparator)).collect();
    if sig.windows(2).any(|w| w[0] == TokenType::StartSideEffect && w[1] == TokenType::EndSideEffect) || crate::checks::c04::has_misplaced_side_effect(tokens) {
        return Some("side-effect-block-empty-or-not-next-to-a-value");
    }
    // else chain whose last arm is conditional (no default)
    for (i, n) in nodes.iter().enumerate() {
        if n.get_definition() == D::ElseJump {
            let right_cond = n.get_right().and_then(|r| nodes.get(r)).map(|r| matches!(r.get_definition(), D::JumpIfTrue | D::JumpIfFalse)).unwrap_or(false);
            let is_inner = n.get_parent().and_then(|p| nodes.get(p)).map(|p| p.get_definition() == D::ElseJump && p.get_left() == Some(i)).unwrap_or(false);
            if right_cond && !is_inner {
                return Some("else-chain-without-default");
            }
        }
    }
    // reapply that is not in tail position of its body
    for (i, n) in nodes.iter().enumerate() {
        if n.get_definition() != D::Reapply {
            continue;
        }
        let mut child = i;
        let mut cur = n.get_parent();
        let mut steps = 0;
        while let Some(p) = cur {
            steps += 1;
            if steps > nodes.len() {
                break;
            }
            let pn = match nodes.get(p) {
                Some(x) => x,
                None => break,
            };
            let is_right = pn.get_right() == Some(child);
            let ok = match pn.get_definition() {
                D::Group | D::ElseJump => true,
                D::JumpIfTrue | D::JumpIfFalse | D::And | D::Or => is_right,
                D::Subexpression | D::ExpressionSeparator => true,
                D::NestedExpression => break,
                _ => false,
            };
            if !ok {
                return Some("reapply-under-an-operator");
            }
            child = p;
            cur = pn.get_parent();
        }
    }
    None
}

pub fn judge(input: &str, ctx: &mut CaseCtx, dynamic_steps: usize) -> Option<(i64, bool)> {
    ctx.render(|| format!("{:?}", input));
    let tokens = match lex_g(input) {
        Ok(Ok(t)) => t,
        _ => {
            ctx.class("not-accepted");
            return None;
        }
    };
    if tokens.iter().any(|t| t.get_token_type() == TokenType::ExpressionTerminator) {
        ctx.class("uses-bare-terminator-excluded");
        return None;
    }
    let parsed = match parse_g(&tokens) {
        Ok(Ok(p)) => p,
        _ => {
            ctx.class("not-accepted");
            return None;
        }
    };
    if tree_has_cycle(parsed.get_root(), parsed.get_nodes()) {
        ctx.class("cyclic-tree-skipped");
        return None;
    }
    let known = known_construct(&tokens, &parsed);
    let tag = |sig: String| match known {
        Some(k) => format!("[{}]{}", k, sig),
        None => sig,
    };
    if let Some(k) = known {
        ctx.class(k);
    }
    let mut result = None;
    let has_identifier = tokens.iter().any(|t| matches!(t.get_token_type(), garnish_lang_compiler::lex::TokenType::Identifier | garnish_lang_compiler::lex::TokenType::PrefixIdentifier | garnish_lang_compiler::lex::TokenType::SuffixIdentifier | garnish_lang_compiler::lex::TokenType::InfixIdentifier));
    for imp in Impl::BOTH {
        ctx.sub_evals += 1;
        let (stat, dynr, stream_text) = match imp {
            Impl::Simple => {
                let mut d = new_simple();
                match build_with_extent(&mut d, &parsed, false) {
                    Ok((ext, _)) => {
                        let (_depths, sf) = absint(&d, &ext);
                        let text = render_stream(&d, &ext);
                        let mut dr = if dynamic_steps > 0 { Some(run_dynamic(&mut d, &ext, true, dynamic_steps)) } else { None };
                        if has_identifier && dr.as_ref().map(|r| r.faults.is_empty()).unwrap_or(false) {
                            // once more with an input that binds the usual names
                            let mut d2 = new_simple();
                            if let Ok((ext2, _)) = build_with_extent(&mut d2, &parsed, false) {
                                let r2 = run_dynamic_with(&mut d2, &ext2, true, dynamic_steps, Some(&binding_input()));
                                if !r2.faults.is_empty() {
                                    dr = Some(r2);
                                }
                            }
                        }
                        (Some(sf), dr, text)
                    }
                    Err(_) => (None, None, String::new()),
                }
            }
            Impl::Basic => {
                let mut d = new_basic();
                match build_with_extent(&mut d, &parsed, false) {
                    Ok((ext, _)) => {
                        let (_depths, sf) = absint(&d, &ext);
                        let text = render_stream(&d, &ext);
                        let mut dr = if dynamic_steps > 0 { Some(run_dynamic(&mut d, &ext, false, dynamic_steps)) } else { None };
                        if has_identifier && dr.as_ref().map(|r| r.faults.is_empty()).unwrap_or(false) {
                            let mut d2 = new_basic();
                            if let Ok((ext2, _)) = build_with_extent(&mut d2, &parsed, false) {
                                let r2 = run_dynamic_with(&mut d2, &ext2, false, dynamic_steps, Some(&binding_input()));
                                if !r2.faults.is_empty() {
                                    dr = Some(r2);
                                }
                            }
                        }
                        (Some(sf), dr, text)
                    }
                    Err(_) => (None, None, String::new()),
                }
            }
        };
        let stat = match stat {
            Some(s) => s,
            None => {
                ctx.class("build-rejected");
                return None;
            }
        };
        ctx.class("built");
        for f in stat {
            ctx.fail(tag(format!("static:{}", f.sig)), format!("{:?} ({}): {} — stream {}", input, imp.name(), f.detail, stream_text));
        }
        if let Some(dr) = dynr {
            if dr.paths >= 1 {
                ctx.class("executed-with-branches");
            }
            if dr.finished {
                ctx.class("ran-to-completion");
            }
            for f in dr.faults {
                ctx.fail(tag(f.sig), format!("{:?} ({}): {} — stream {}", input, imp.name(), f.detail, stream_text));
            }
            result = Some((dr.max_operands, dr.finished));
        }
    }
    // non-trivial: a conditional or logical jump in the source
    if tokens.iter().any(|t| matches!(t.get_token_type(), TokenType::JumpIfTrue | TokenType::JumpIfFalse | TokenType::ElseJump | TokenType::And | TokenType::Or)) {
        ctx.nontrivial(fnv(input.as_bytes()));
    }
    result
}

impl Check for C06Check {
    fn id(&self) -> &'static str {
        "C06"
    }
    fn rule(&self) -> String {
        format!(
            "Same corpus as C04/C05 (every sequence of up to L token classes x 3 separators, level-representative operator triples, token soups, random deeper expressions; inputs containing the bare terminator `;;` excluded as the statement says) plus {} reapply-loop programs x iteration counts {:?}. \
             Static oracle: abstract interpretation of the built stream over all paths (bodies entered at relative depth 0): one operand depth per instruction, never negative, exactly 1 at EndExpression. \
             Dynamic oracle: the program is stepped (<= 3000 steps) on both data implementations with a shadow call stack; after every step the change in the number of pending operands must equal the instruction's abstract effect, every EndExpression must execute with exactly one pending operand in its frame, \
             (programs that mention an identifier are run a second time with an input that binds the usual names to unit, a number and a list) no underflow error may occur, and when the program ends operand stack, input-value stack and frame chain are back at their initial depths; for the reapply programs the maximum operand depth must not depend on the iteration count. \
             Non-trivial = source contains a conditional or logical jump; distinct = distinct inputs.",
            REAPPLY_FAMILY.len(),
            REAPPLY_COUNTS
        )
    }
    fn assumptions(&self) -> Vec<String> {
        vec![
            "operand-stack effects per instruction as in DESIGN.md Appendix B".into(),
            "runtime errors other than operand/value underflow end a run without verdict (type errors are not C06's concern)".into(),
            "SimpleGarnishData keeps frame markers in the register vector; the shadow call stack subtracts them".into(),
        ]
    }
    fn phases(&self, tier: Tier) -> Vec<Phase> {
        let l = tier.pick(4, 5);
        let r = optable::level_representatives().len() as u64;
        vec![
            Phase::exhaustive("reapply-loops", (REAPPLY_FAMILY.len()) as u64).with_chunk(1),
            Phase::exhaustive("operators-on-value-pairs", valuepool::binary_program_count() + valuepool::unary_program_count()).with_chunk(2048),
            Phase::exhaustive("class-sequences", class_sequence_count(l)).with_chunk(8192),
            Phase::exhaustive("operator-triples", r * r * r * 2).with_chunk(4096),
            Phase::random("token-soups", tier.pick(80_000, 3_000_000), 120).with_min_tape(6).with_chunk(1024),
            Phase::random("random-deep-expressions", tier.pick(120_000, 3_000_000), 96).with_min_tape(16).with_chunk(2048),
            Phase::exhaustive("statement-blocks", block_string_count(tier.pick(7, 8))).with_chunk(16384),
            Phase::exhaustive("control-flow-skeletons", crate::model::astgen::CONTROL.count_up_to(tier.pick(8, 9))).with_chunk(4096),
            Phase::exhaustive("repetition", repetition_corpus().len() as u64).with_chunk(16),
        ]
    }
    fn run(&self, tier: Tier, phase: usize, input: &Input, ctx: &mut CaseCtx) {
        match (phase, input) {
            (_, Input::Text(s)) => {
                judge(s, ctx, 3000);
            }
            (8, Input::Index(i)) => {
                judge(&repetition_corpus()[*i as usize], ctx, 2000);
            }
            (0, Input::Index(i)) => {
                let template = REAPPLY_FAMILY[*i as usize];
                ctx.class("reapply-loop");
                let mut depths: Vec<(u32, i64)> = vec![];
                for n in REAPPLY_COUNTS {
                    let src = template.replace("N", &n.to_string());
                    if let Some((max_ops, finished)) = judge(&src, ctx, 20_000) {
                        if !finished {
                            ctx.fail("reapply-loop-did-not-finish", format!("{:?} did not run to completion", src));
                        }
                        if *n >= 1 {
                            depths.push((*n, max_ops));
                        }
                    } else {
                        ctx.fail("reapply-family-program-not-accepted", format!("{:?} was not accepted by the pipeline", src));
                    }
                }
                if let Some((n0, d0)) = depths.first().copied() {
                    for (n, dd) in &depths {
                        if *dd != d0 {
                            ctx.fail("reapply-depth-grows-with-iterations", format!("{:?}: maximum operand depth {} with N={} but {} with N={}", template, d0, n0, dd, n));
                        }
                    }
                }
                ctx.nontrivial(fnv(template.as_bytes()));
            }
            (1, Input::Index(i)) => {
                let src = if *i < valuepool::binary_program_count() { valuepool::binary_program(*i) } else { valuepool::unary_program(*i - valuepool::binary_program_count()) };
                ctx.class("operator-on-values");
                judge(&src, ctx, 2000);
                // every such program exercises a data-dependent instruction: count it as non-trivial
                ctx.nontrivial(fnv(src.as_bytes()));
            }
            (2, Input::Index(i)) => {
                judge(&class_sequence(*i, tier.pick(4, 5)), ctx, 300);
            }
            (3, Input::Index(i)) => match triple_source(*i) {
                Some(s) => {
                    judge(&s, ctx, 300);
                }
                None => ctx.class("invalid-fixity-sequence"),
            },
            (4, Input::Tape(t)) => {
                judge(&token_soup(&mut Tape::new(t), 40), ctx, 1000);
            }
            (5, Input::Tape(t)) => {
                judge(&c02::random_source(t), ctx, 1000);
            }
            (6, Input::Index(i)) => {
                judge(&block_string(*i, tier.pick(7, 8)), ctx, 300);
            }
            (7, Input::Index(i)) => match crate::model::astgen::control_source(*i, tier.pick(8, 9)) {
                Some(s) => {
                    judge(&s, ctx, 300);
                }
                None => ctx.class("not-printable"),
            },
            _ => {}
        }
    }
}
