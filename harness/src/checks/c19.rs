//! C19 — compaction and cloning preserve everything reachable.

use crate::checks::c01::front_end;
use crate::checks::c20::POOL;
use crate::engine::core::*;
use crate::engine::tape::{Tape, fnv};
use crate::model::astgen;
use crate::model::data::*;
use crate::model::pipeline::*;
use crate::model::refparse::{Layout, render};
use crate::model::value::{self, V, pair, readback, same, sym};
use garnish_lang_runtime::{SimpleRuntimeState, execute_current_instruction};
use garnish_lang_simple_data::{BasicGarnishData, NoOpCompanion, SimpleNumber, symbol_value};
use garnish_lang_traits::GarnishData;

pub struct C19Check;
pub static C19: C19Check = C19Check;

type B = BasicGarnishData<(), NoOpCompanion>;

#[derive(Clone, Debug)]
enum Node {
    Num(i32),
    /// a float, mostly one that equals a small integer the graph also holds as an integer
    Flt(f64),
    Text(String),
    Sym(String),
    Pair(usize, usize),
    KeyedPair(String, usize),
    List(Vec<usize>),
    Concat(usize, usize),
    Bytes(Vec<u8>),
    /// a list whose items are created between start_list and end_list (the header lies below its items, as in a list the
    /// runtime makes by casting a text): the item numbers
    FreshList(Vec<i32>),
    /// a symbol list (key path) of these raw symbols
    SymList(Vec<u64>),
}

struct Graph {
    addrs: Vec<usize>,
    values: Vec<V>,
    /// data_size() after each node: the object boundaries
    boundaries: Vec<usize>,
    symbols: Vec<String>,
}

fn gen_nodes(t: &mut Tape, n: usize) -> Vec<Node> {
    let mut nodes: Vec<Node> = vec![];
    let mut weights: Vec<u64> = vec![];
    for i in 0..n {
        let pick = |t: &mut Tape, i: usize| if i == 0 { 0 } else { t.choose(i) };
        let node = if i < 2 {
            Node::Num(i as i32)
        } else {
            match t.choose(10) {
                0 => {
                    if t.chance(90) {
                        Node::Flt([0.0, 1.0, 2.0, -0.0, 0.5, 3.0][t.choose(6)])
                    } else {
                        Node::Num([0, 1, 2, 3][t.choose(4)] + if t.chance(60) { t.choose(50) as i32 } else { 0 })
                    }
                }
                1 => {
                    // mostly short; now and then empty or long enough to cross the store's growth steps
                    let extra = [0usize, 0, 0, 0, 1, 9, 40, 130][t.choose(8)];
                    let tail: String = (0..extra).map(|k| ['a', 'é', '漢'][k % 3]).collect();
                    if extra == 1 { Node::Text(String::new()) } else { Node::Text(format!("t{}é{}", t.choose(9), tail)) }
                }
                2 => {
                    let extra = [0usize, 0, 0, 3, 30][t.choose(5)];
                    Node::Sym(format!("s{}{}", t.choose(6), "ñ".repeat(extra)))
                }
                3 => Node::Pair(pick(t, i), pick(t, i)),
                4 => Node::KeyedPair(format!("k{}", t.choose(6)), pick(t, i)),
                5 | 6 => {
                    let k = [0usize, 1, 2, 3, 4, 2, 3, 12, 17, 33][t.choose(10)];
                    if k > 4 {
                        // a long list refers to leaves only: the reachability expansion visits a shared value once per path
                        // (the recorded clone-limit finding), so long lists of shared compound values take exponential time
                        let leaves: Vec<usize> = (0..i).filter(|j| matches!(nodes[*j], Node::Num(_) | Node::Flt(_) | Node::Text(_) | Node::Sym(_) | Node::Bytes(_) | Node::SymList(_))).collect();
                        Node::List((0..k).map(|_| leaves[t.choose(leaves.len())]).collect())
                    } else {
                        Node::List((0..k).map(|_| pick(t, i)).collect())
                    }
                }
                7 => {
                    if t.chance(60) {
                        Node::FreshList((0..t.choose(4)).map(|k| 70 + k as i32).collect())
                    } else {
                        Node::Concat(pick(t, i), pick(t, i))
                    }
                }
                8 => {
                    if t.chance(100) {
                        let k = [2usize, 2, 3, 5][t.choose(4)];
                        Node::SymList((0..k).map(|j| 40_000 + (t.choose(9) as u64) * 31 + j as u64).collect())
                    } else {
                        let k = [2usize, 2, 0, 1, 13, 70][t.choose(6)];
                        Node::Bytes((0..k).map(|_| t.byte()).collect())
                    }
                }
                _ => Node::Pair(i - 1, i - 2), // shared sub-values
            }
        };
        // the reachability expansion of optimize / clone_data visits a shared value once per path to it (the recorded
        // clone-limit finding): the number of paths below a node is kept polynomial by construction, so that neither the
        // clone limit nor minutes of copying hide everything else (a chain of pairs each sharing its two predecessors
        // has Fibonacci many)
        let weight_of = |n: &Node, w: &Vec<u64>| -> u64 {
            match n {
                Node::Pair(a, b) | Node::Concat(a, b) => 1 + w[*a] + w[*b],
                Node::KeyedPair(_, a) => 2 + w[*a],
                Node::List(items) => 1 + items.iter().map(|i| w[*i]).sum::<u64>(),
                _ => 1,
            }
        };
        let w = weight_of(&node, &weights);
        let node = if w > 400 { Node::Num(7) } else { node };
        weights.push(weight_of(&node, &weights));
        nodes.push(node);
    }
    nodes
}

fn build_graph(d: &mut B, nodes: &[Node]) -> Result<Graph, String> {
    let mut g = Graph { addrs: vec![], values: vec![], boundaries: vec![], symbols: vec![] };
    let e = |x: garnish_lang_simple_data::DataError| x.to_string();
    for n in nodes {
        let (a, v) = match n {
            Node::Num(i) => (d.add_number(SimpleNumber::Integer(*i)).map_err(e)?, V::Int(*i)),
            Node::Flt(f) => (d.add_number(SimpleNumber::Float(*f)).map_err(e)?, V::Float(*f)),
            Node::Text(s) => (d.parse_add_char_list(&format!("\"{}\"", s)).map_err(e)?, value::text(s)),
            Node::Bytes(b) => {
                let spelled = if b.is_empty() { "''".to_string() } else { format!("'''{}'''", b.iter().map(|x| x.to_string()).collect::<Vec<_>>().join(" ")) };
                (d.parse_add_byte_list(&spelled).map_err(e)?, V::Bytes(b.clone()))
            }
            Node::Sym(s) => {
                g.symbols.push(s.clone());
                (d.parse_add_symbol(s).map_err(e)?, sym(s))
            }
            Node::Pair(i, j) => (d.add_pair((g.addrs[*i], g.addrs[*j])).map_err(e)?, pair(g.values[*i].clone(), g.values[*j].clone())),
            Node::KeyedPair(k, j) => {
                g.symbols.push(k.clone());
                let ka = d.parse_add_symbol(k).map_err(e)?;
                (d.add_pair((ka, g.addrs[*j])).map_err(e)?, pair(sym(k), g.values[*j].clone()))
            }
            Node::List(items) => {
                let mut l = d.start_list(items.len()).map_err(e)?;
                for i in items {
                    l = d.add_to_list(l, g.addrs[*i]).map_err(e)?;
                }
                (d.end_list(l).map_err(e)?, V::List(items.iter().map(|i| g.values[*i].clone()).collect()))
            }
            Node::FreshList(nums) => {
                let mut l = d.start_list(nums.len()).map_err(e)?;
                for x in nums {
                    let a = d.add_number(SimpleNumber::Integer(*x)).map_err(e)?;
                    l = d.add_to_list(l, a).map_err(e)?;
                }
                (d.end_list(l).map_err(e)?, V::List(nums.iter().map(|x| V::Int(*x)).collect()))
            }
            Node::SymList(syms) => {
                let mut acc = d.add_symbol(syms[0]).map_err(e)?;
                for sy in &syms[1..] {
                    let next = d.add_symbol(*sy).map_err(e)?;
                    acc = d.merge_to_symbol_list(acc, next).map_err(e)?;
                }
                (acc, V::SymList(syms.iter().map(|x| crate::model::value::SymPart::Sym(*x)).collect()))
            }
            Node::Concat(i, j) => (d.add_concatenation(g.addrs[*i], g.addrs[*j]).map_err(e)?, V::Concat(Box::new(g.values[*i].clone()), Box::new(g.values[*j].clone()))),
        };
        g.addrs.push(a);
        g.values.push(v);
        g.boundaries.push(d.data_size());
    }
    Ok(g)
}

#[derive(Debug, Clone)]
struct Snapshot {
    registers: Vec<V>,
    values: Vec<V>,
    frames: Vec<(usize, Vec<V>)>,
    symbols: Vec<(String, Option<String>)>,
}

fn snapshot(d: &B, symbols: &[String]) -> Snapshot {
    let registers: Vec<V> = (0..d.get_register_len()).map(|i| d.get_register(i).map(|a| readback(d, a)).unwrap_or(V::Unreadable("register".into()))).collect();
    let mut c = d.clone();
    let mut values = vec![];
    while let Some(a) = c.pop_value_stack() {
        values.push(readback(&c, a));
        if values.len() > 10_000 {
            break;
        }
    }
    // frames: return address + the registers visible after returning
    let mut c = d.clone();
    let mut frames = vec![];
    while let Ok(Some(ret)) = c.pop_frame() {
        let regs: Vec<V> = (0..c.get_register_len()).map(|i| c.get_register(i).map(|a| readback(&c, a)).unwrap_or(V::Unreadable("register".into()))).collect();
        frames.push((ret, regs));
        if frames.len() > 10_000 {
            break;
        }
    }
    let symbols = symbols.iter().map(|s| (s.clone(), d.get_symbol_string(symbol_value(s)).ok().flatten())).collect();
    Snapshot { registers, values, frames, symbols }
}

fn diff(a: &Snapshot, b: &Snapshot) -> Option<(String, String)> {
    let lists = |x: &Vec<V>, y: &Vec<V>| x.len() == y.len() && x.iter().zip(y.iter()).all(|(p, q)| same(p, q));
    if !lists(&a.registers, &b.registers) {
        return Some(("operand-stack-changed".into(), format!("registers before {:?} after {:?}", a.registers.iter().map(|v| v.to_string()).collect::<Vec<_>>(), b.registers.iter().map(|v| v.to_string()).collect::<Vec<_>>())));
    }
    if !lists(&a.values, &b.values) {
        return Some(("input-value-stack-changed".into(), format!("value stack before {:?} after {:?}", a.values.iter().map(|v| v.to_string()).collect::<Vec<_>>(), b.values.iter().map(|v| v.to_string()).collect::<Vec<_>>())));
    }
    if a.frames.len() != b.frames.len() || !a.frames.iter().zip(b.frames.iter()).all(|(x, y)| x.0 == y.0 && lists(&x.1, &y.1)) {
        return Some(("frame-chain-changed".into(), format!("frames before {:?} after {:?}", a.frames.iter().map(|f| f.0).collect::<Vec<_>>(), b.frames.iter().map(|f| f.0).collect::<Vec<_>>())));
    }
    if a.symbols != b.symbols {
        return Some(("symbol-names-changed".into(), format!("symbol names before {:?} after {:?}", a.symbols, b.symbols)));
    }
    None
}

fn short_err(e: &str) -> String {
    e.chars().filter(|c| c.is_ascii_alphabetic() || *c == ' ').take(40).collect::<String>().trim().replace(' ', "-")
}

fn judge_graph(t: &mut Tape, ctx: &mut CaseCtx) {
    let n = 3 + t.choose(28);
    let nodes = gen_nodes(t, n);
    ctx.render(|| format!("{} nodes: {:?}", nodes.len(), nodes.iter().take(10).collect::<Vec<_>>()));
    let mut d = new_basic();
    // some instructions and a jump entry so that all blocks hold something
    let _ = d.push_instruction(garnish_lang_traits::Instruction::EndExpression, None);
    let _ = d.push_to_jump_table(0);
    let g = match build_graph(&mut d, &nodes) {
        Ok(g) => g,
        Err(_) => {
            ctx.class("graph-not-buildable");
            return;
        }
    };
    // retention at an object boundary (or nothing / everything)
    let cut = t.choose(n + 2);
    let retained_upto = if cut == 0 { 0 } else { g.boundaries[(cut - 1).min(n - 1)] };
    d.set_data_retention_count(retained_upto);
    // stacks
    let mut on_stack = vec![];
    for _ in 0..t.choose(5) {
        let i = t.choose(n);
        let _ = d.push_register(g.addrs[i]);
        on_stack.push(i);
    }
    for _ in 0..t.choose(3) {
        let i = t.choose(n);
        let _ = d.push_value_stack(g.addrs[i]);
        on_stack.push(i);
    }
    let with_frames = t.chance(110);
    if with_frames {
        for k in 0..1 + t.choose(3) {
            let _ = d.push_frame(500 + k);
            if t.flag() {
                let i = t.choose(n);
                let _ = d.push_register(g.addrs[i]);
                on_stack.push(i);
            }
        }
    }
    // extra roots: any complete values, including ones on a stack or inside the retained prefix
    let mut roots = vec![];
    for _ in 0..t.choose(5) {
        roots.push(t.choose(n));
    }
    if !on_stack.is_empty() && t.flag() {
        roots.push(on_stack[t.choose(on_stack.len())]);
    }
    let shared = nodes.iter().any(|x| matches!(x, Node::Pair(a, b) if a == b)) || nodes.len() > 6;
    if shared && roots.iter().any(|r| on_stack.contains(r)) {
        ctx.nontrivial(fnv(format!("{:?}{:?}{:?}{}", nodes, roots, on_stack, cut).as_bytes()));
    }
    ctx.class(if with_frames { "graph-with-frames" } else { "graph" });
    let retained: Vec<usize> = (0..n).filter(|i| g.boundaries[*i] <= retained_upto).collect();
    let mut root_addrs: Vec<usize> = roots.iter().map(|r| g.addrs[*r]).collect();
    // sometimes the root is a fresh clone of the value (clone, then compact, as a host keeping a result would)
    if !roots.is_empty() && t.chance(70) {
        match guard("clone", || d.clone_data(root_addrs[0])) {
            Ok(Ok(a)) => {
                root_addrs[0] = a;
                ctx.class("root-is-a-clone");
            }
            Ok(Err(e)) => {
                if !e.to_string().contains("Clone limit") {
                    ctx.fail(format!("clone-error:{}:{}", g.values[roots[0]].type_name(), short_err(&e.to_string())), format!("clone_data({}) before optimize: Err({})", g.values[roots[0]], e));
                }
                return;
            }
            Err(p) => {
                ctx.fail(format!("clone-panic@{}", p.loc), p.msg);
                return;
            }
        }
    }
    // a clone that is refused (an address the store does not hold) must leave no trace: what follows is judged as usual
    if t.chance(40) {
        let bogus = d.data_size() + 1000;
        if let Ok(Ok(_)) = guard("clone", || d.clone_data(bogus)) {
            ctx.class("clone-of-an-address-outside-the-store-accepted");
        } else {
            ctx.class("refused-clone-before-optimize");
        }
    }
    let before = snapshot(&d, &g.symbols);
    let what = format!("retention {} of {} cells, roots {:?}, stacks {:?}, frames {}", retained_upto, d.data_size(), roots, on_stack, with_frames);
    let mut mapped = match guard("optimize", || d.optimize(&root_addrs)) {
        Err(p) => {
            ctx.fail(format!("optimize-panic@{}", p.loc), format!("{}: {}", what, p.msg));
            return;
        }
        Ok(Err(e)) => {
            let kind = if e.to_string().contains("Clone limit") { "clone-limit-reached".to_string() } else { format!("{}:{}", if with_frames { "with-frames" } else { "no-frames" }, short_err(&e.to_string())) };
            ctx.fail(format!("optimize-error:{}", kind), format!("{}: optimize returned Err({})", what, e));
            return;
        }
        Ok(Ok(m)) => m,
    };
    for round in 0..2 {
        let after = snapshot(&d, &g.symbols);
        if let Some((sig, detail)) = diff(&before, &after) {
            ctx.fail(format!("{}:{}", sig, if round == 0 { "first-optimize" } else { "second-optimize" }), format!("{}: {}", what, detail));
            return;
        }
        for i in &retained {
            let v = readback(&d, g.addrs[*i]);
            if !same(&v, &g.values[*i]) {
                ctx.fail("retained-value-changed".to_string(), format!("{}: retained node {} at {} was {} and reads {} after optimize", what, i, g.addrs[*i], g.values[*i], v));
                return;
            }
        }
        if mapped.len() != roots.len() {
            ctx.fail("root-mapping-length".to_string(), format!("{}: {} roots, {} mapped addresses", what, roots.len(), mapped.len()));
            return;
        }
        for (k, r) in roots.iter().enumerate() {
            let v = readback(&d, mapped[k]);
            if !same(&v, &g.values[*r]) {
                ctx.fail(format!("extra-root-changed:{}", g.values[*r].type_name()), format!("{}: root node {} was {} and reads {} at its mapped address {} after optimize #{}", what, r, g.values[*r], v, mapped[k], round + 1));
                return;
            }
        }
        if round == 1 {
            // the store stays usable: a symbol whose name it already holds, a number and a text added after compaction read
            // back as what was added, and what was there still reads back as before
            for name in g.symbols.iter().take(3) {
                match guard("store", || d.parse_add_symbol(name)) {
                    Ok(Ok(a)) => {
                        let v = readback(&d, a);
                        if !same(&v, &sym(name)) {
                            ctx.fail("value-added-after-optimize-reads-back-wrong:Symbol".to_string(), format!("{}: parse_add_symbol({:?}) after optimize returned {} which reads back {}", what, name, a, v));
                            return;
                        }
                    }
                    Ok(Err(e)) => {
                        ctx.fail("add-after-optimize-fails".to_string(), format!("{}: parse_add_symbol({:?}) after optimize: Err({})", what, name, e));
                        return;
                    }
                    Err(p) => {
                        ctx.fail(format!("store-panic@{}", p.loc), format!("{}: parse_add_symbol after optimize: {}", what, p.msg));
                        return;
                    }
                }
            }
            if let (Ok(a), Ok(b)) = (d.add_number(SimpleNumber::Integer(424242)), d.parse_add_char_list("\"aé\"")) {
                if !same(&readback(&d, a), &V::Int(424242)) || !same(&readback(&d, b), &value::text("aé")) {
                    ctx.fail("value-added-after-optimize-reads-back-wrong".to_string(), format!("{}: a number / text added after optimize read back as {} / {}", what, readback(&d, a), readback(&d, b)));
                    return;
                }
            }
            let later = snapshot(&d, &g.symbols);
            if let Some((sig, detail)) = diff(&before, &later) {
                ctx.fail(format!("{}:after-adding-to-the-compacted-store", sig), format!("{}: {}", what, detail));
                return;
            }
        }
        if round == 0 {
            // repeated compaction with the mapped roots
            mapped = match guard("optimize", || d.optimize(&mapped.clone())) {
                Err(p) => {
                    ctx.fail(format!("optimize-panic@{}", p.loc), format!("{} (second optimize): {}", what, p.msg));
                    return;
                }
                Ok(Err(e)) => {
                    let kind = if e.to_string().contains("Clone limit") { "clone-limit-reached".to_string() } else { short_err(&e.to_string()) };
                ctx.fail(format!("second-optimize-error:{}", kind), format!("{}: second optimize returned Err({})", what, e));
                    return;
                }
                Ok(Ok(m)) => m,
            };
        }
    }
}

fn judge_clone(t: &mut Tape, ctx: &mut CaseCtx) {
    let n = 3 + t.choose(24);
    let nodes = gen_nodes(t, n);
    ctx.render(|| format!("clone in a graph of {} nodes: {:?}", nodes.len(), nodes.iter().take(10).collect::<Vec<_>>()));
    let mut d = new_basic();
    let g = match build_graph(&mut d, &nodes) {
        Ok(g) => g,
        Err(_) => return,
    };
    ctx.class("clone");
    ctx.nontrivial(fnv(format!("clone{:?}", nodes).as_bytes()));
    for _ in 0..3 {
        let i = t.choose(n);
        match guard("clone", || d.clone_data(g.addrs[i])) {
            Err(p) => {
                ctx.fail(format!("clone-panic@{}", p.loc), format!("clone_data of node {} ({}): {}", i, g.values[i], p.msg));
                return;
            }
            Ok(Err(e)) => {
                let kind = if e.to_string().contains("Clone limit") { "clone-limit-reached".to_string() } else { format!("{}:{}", g.values[i].type_name(), short_err(&e.to_string())) };
                ctx.fail(format!("clone-error:{}", kind), format!("clone_data of node {} ({}) returned Err({})", i, g.values[i], e));
                return;
            }
            Ok(Ok(a)) => {
                let v = readback(&d, a);
                if !same(&v, &g.values[i]) {
                    ctx.fail(format!("clone-differs:{}", g.values[i].type_name()), format!("clone of node {} ({}) reads back {}", i, g.values[i], v));
                    return;
                }
            }
        }
        for (k, a) in g.addrs.iter().enumerate() {
            let v = readback(&d, *a);
            if !same(&v, &g.values[k]) {
                ctx.fail("original-changed-by-clone".to_string(), format!("after clone_data of node {}, node {} ({}) reads back {}", i, k, g.values[k], v));
                return;
            }
        }
    }
}

/// run `text` on Basic, injecting optimize at step boundary `at` (None = uninterrupted); Ok(value) or Err(description)
fn run_with_compaction(parsed: &garnish_lang_compiler::parse::ParseResult, input: &V, at: Option<usize>) -> Result<(Option<V>, usize), (String, String)> {
    let mut d = new_basic();
    let b = match build_g(parsed, &mut d) {
        Ok(Ok(b)) => b,
        _ => return Ok((None, 0)),
    };
    d.retain_all_current_data();
    let start = match d.get_from_jump_table(*b.jump_index()) {
        Some(s) => s,
        None => return Ok((None, 0)),
    };
    let _ = d.set_instruction_cursor(start);
    let ia = match value::build_value(&mut d, input) {
        Ok(a) => a,
        Err(_) => return Ok((None, 0)),
    };
    let _ = d.push_value_stack(ia);
    let mut steps = 0usize;
    loop {
        if Some(steps) == at {
            match guard("optimize", || d.optimize(&[])) {
                Err(p) => return Err((format!("optimize-panic@{}", p.loc), p.msg)),
                Ok(Err(e)) => return Err((format!("optimize-error-while-running:{}", if e.to_string().contains("Clone limit") { "clone-limit-reached".to_string() } else { short_err(&e.to_string()) }), e.to_string())),
                Ok(Ok(_)) => {}
            }
        }
        match guard("run", || execute_current_instruction(&mut d)) {
            Err(p) => return Err((format!("run-panic@{}", p.loc), p.msg)),
            Ok(Err(e)) => {
                return if at.is_some() { Err(("execution-fails-after-compaction".into(), e.to_string())) } else { Ok((None, steps)) };
            }
            Ok(Ok(info)) => {
                steps += 1;
                if info.get_state() == SimpleRuntimeState::End {
                    break;
                }
            }
        }
        if steps > 3000 {
            return Ok((None, steps));
        }
    }
    Ok((d.get_current_value().map(|a| readback(&d, a)), steps))
}

fn judge_program(text: &str, ctx: &mut CaseCtx) {
    ctx.render(|| format!("{:?} with optimize at every step boundary", text));
    let parsed = match front_end(text, None) {
        Ok(p) => p,
        Err(_) => {
            ctx.class("program-not-accepted");
            return;
        }
    };
    let input = V::List(vec![pair(sym("k"), V::Int(3)), pair(sym("j"), V::Int(4))]);
    let (base, steps) = match run_with_compaction(&parsed, &input, None) {
        Ok((Some(v), s)) => (v, s),
        _ => {
            ctx.class("program-does-not-finish-alone");
            return;
        }
    };
    ctx.class("program");
    ctx.nontrivial(fnv(text.as_bytes()));
    for at in 0..steps.min(80) {
        ctx.sub_evals += 1;
        match run_with_compaction(&parsed, &input, Some(at)) {
            Ok((Some(v), _)) => {
                if !same(&v, &base) {
                    ctx.fail("result-differs-after-compaction".to_string(), format!("{:?}: uninterrupted result {}, with optimize before step {} of {}: {}", text, base, at, steps, v));
                    return;
                }
            }
            Ok((None, _)) => {
                ctx.fail("does-not-finish-after-compaction".to_string(), format!("{:?}: with optimize before step {} of {} the run no longer finishes", text, at, steps));
                return;
            }
            Err((sig, detail)) => {
                ctx.fail(sig, format!("{:?}: optimize before step {} of {}: {}", text, at, steps, detail));
                return;
            }
        }
    }
}

impl Check for C19Check {
    fn id(&self) -> &'static str {
        "C19"
    }
    fn rule(&self) -> String {
        format!(
            "Phase graphs: BasicGarnishData loaded with random value graphs of 3..30 nodes (numbers, multi-byte text of 0..130 characters, byte lists of 0..70 bytes, named symbols incl. long non-ASCII names, pairs, symbol-keyed pairs, lists of 0..33 items, concatenations, shared sub-values), a retention count at a random object boundary (none / some / all), random values pushed on the operand stack, the input-value stack and under call frames, random extra roots including values already on a stack or inside the retained prefix; optimize is called twice (second time with the returned mapping), then a symbol whose name the store holds, a number and a text are added and everything is read again. \
             Phase programs: {} pool programs (conditionals, nested calls, reapply loops, side effects, lists, look-ups) and random core ASTs, constants retained after build, with optimize injected before EVERY step (first 80 step boundaries) of the run. Phase clones: clone_data on random nodes of random graphs. Phase helper-clones: random value trees copied with the generic helper helpers::clone_data from one data object into another of the same implementation (both implementations). \
             Oracle: read-back of every register, value-stack entry, frame (return address and registers visible after returning), symbol name, retained address and extra root (through the returned mapping) is structurally identical before and after; a run with injected compaction ends with the same value as the uninterrupted run; a clone reads back equal to its source and every original still reads back as before. \
             Non-trivial = a graph with shared sub-values and an extra root that is also on a stack, any program, any clone case; distinct = distinct cases.",
            POOL.len()
        )
    }
    fn assumptions(&self) -> Vec<String> {
        vec![
            "retention counts fall on object boundaries; extra roots are addresses of complete values; optimize is not called while a list is open".into(),
            "constants referenced by instructions are inside the retained prefix (retain_all_current_data after build)".into(),
        ]
    }
    fn phases(&self, tier: Tier) -> Vec<Phase> {
        vec![
            Phase::random("graphs", tier.pick(200_000, 2_000_000), 200).with_min_tape(40).with_chunk(512),
            Phase::exhaustive("pool-programs", POOL.len() as u64).with_chunk(1),
            Phase::random("random-programs", tier.pick(15_000, 200_000), 160).with_min_tape(24).with_chunk(64),
            Phase::random("clones", tier.pick(100_000, 1_000_000), 160).with_min_tape(30).with_chunk(512),
            Phase::random("helper-clones", tier.pick(60_000, 600_000), 120).with_min_tape(24).with_chunk(512),
        ]
    }
    fn run(&self, _tier: Tier, phase: usize, input: &Input, ctx: &mut CaseCtx) {
        match (phase, input) {
            (0, Input::Tape(t)) => judge_graph(&mut Tape::new(t), ctx),
            (4, Input::Tape(t)) => {
                // the generic helper garnish_lang_traits::helpers::clone_data (what SimpleGarnishData's
                // clone_with_retained_data uses): a value tree copied from one data object into another, for each
                // of the two implementations
                let mut t = Tape::new(t);
                let v = crate::checks::c11::tree(&mut t, 3);
                let from_basic = t.flag();
                let to_basic = from_basic;
                ctx.render(|| format!("helpers::clone_data of {} from one {} object into another", v, if from_basic { "BasicGarnishData" } else { "SimpleGarnishData" }));
                ctx.class("helper-clone");
                if v.depth() >= 2 {
                    ctx.nontrivial(fnv(format!("hc{}{}{}", v, from_basic, to_basic).as_bytes()));
                }
                fn go<A: GD>(from: &mut A, to: &mut A, v: &V, ctx: &mut CaseCtx) {
                    let a = match value::build_value(from, v) {
                        Ok(a) => a,
                        Err(_) => return,
                    };
                    // something in the destination already, so that addresses differ between the two objects
                    let _ = to.add_number(SimpleNumber::Integer(9));
                    match guard("clone", || garnish_lang_traits::helpers::clone_data(a, from, to)) {
                        Err(p) => ctx.fail(format!("clone-panic@{}", p.loc), format!("helpers::clone_data({}): {}", v, p.msg)),
                        Ok(Err(e)) => ctx.fail(format!("helper-clone-error:{}", v.type_name()), format!("helpers::clone_data({}): Err({})", v, e)),
                        Ok(Ok(b)) => {
                            let got = readback(to, b);
                            if !same(&got, v) {
                                ctx.fail(format!("helper-clone-differs:{}", v.type_name()), format!("helpers::clone_data({}) reads back as {} in the destination", v, got));
                            }
                            let still = readback(from, a);
                            if !same(&still, v) {
                                ctx.fail("helper-clone-changed-the-original".to_string(), format!("{} reads back as {} after being cloned", v, still));
                            }
                        }
                    }
                }
                if from_basic {
                    go(&mut new_basic(), &mut new_basic(), &v, ctx)
                } else {
                    go(&mut new_simple(), &mut new_simple(), &v, ctx)
                }
            }
            (1, Input::Index(i)) => judge_program(POOL[*i as usize], ctx),
            (2, Input::Tape(t)) => {
                let mut t = Tape::new(t);
                let ast = astgen::random_ast(&mut t, 4);
                if let Some((toks, _, _)) = astgen::printable(&ast) {
                    judge_program(&render(&toks, Layout::Spaced), ctx);
                }
            }
            (3, Input::Tape(t)) => judge_clone(&mut Tape::new(t), ctx),
            (_, Input::Text(s)) => judge_program(s, ctx),
            _ => {}
        }
    }
}
