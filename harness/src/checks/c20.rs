//! C20 — programs built into a shared data object do not disturb each other.

use crate::checks::c01::{Got, front_end, run_real};
use crate::engine::core::*;
use crate::engine::tape::{Tape, fnv};
use crate::model::astgen;
use crate::model::data::*;
use crate::model::pipeline::*;
use crate::model::refparse::{Layout, render};
use crate::model::stream::*;
use crate::model::value::{self, V, pair, readback, same, sym};
use garnish_lang_compiler::parse::ParseResult;
use garnish_lang_traits::Instruction;

pub struct C20Check;
pub static C20: C20Check = C20Check;

pub const POOL: &[&str] = &[
    "",
    "5",
    "5 + 10",
    "\"abc\"",
    ":k = 5",
    "1 2 3",
    "(1, 2), (3, 4)",
    "$ ?> 1 |> 2",
    "k ?> 1 |> 2",
    "$? ?> 10",
    "$! ?> 10 |> $? ?> 20 |> 30",
    "$? && 5",
    "$! || k",
    "$! && 1 || 2",
    "{ 5 }",
    "{ $ + 1 } <~ 10",
    "10 ~> { $ * 2 }",
    "{ 7 } ~~",
    "{ { $ + 1 } <~ $ } <~ 1",
    "{ $ < 3 ?> ^~ $ + 1 |> $ * 10 } <~ 0",
    "5 [ 6 + 7 ] 8",
    "1 ; $ + 1 ; $ + 1",
    "1\n\n$ + 1",
    "(:a = 1, :b = 2) . b",
    "k + 1",
    "{ k } <~ (:k = 9)",
    "5 == 5 ?> \"abc\" |> \"abd\"",
    "!! $ ?> { 1 } ~~ |> { 2 } ~~",
    "((1 2) (3 4)) . 1 . 0",
    "{ $ ?> { $ + 1 } <~ 1 |> 0 } <~ $?",
    "1 < 2 && 2 < 3 ?> :yes |> :no",
    "10 20 30 ~> { $ . 1 }",
    "$ == 5 ?> 1 |> ^~ 5",
    "k ?> ^~ 9 |> $ + 1",
    "$ == 5 && $? || ^~ 5",
    // programs whose block emits no instruction of its own (what closes them must not be borrowed from a neighbour)
    "( )",
    "{ ( ) }",
    "( ( ) )",
    "5 ; ( )",
    // constants of every interned kind in every order: a later program that spells a constant an earlier one already
    // stored must get that constant, wherever it sits among the earlier program's other constants
    "7 2.5",
    "7 \"cd\"",
    "7 'ab'",
    "7 :s",
    "2.5 7",
    "2.5 \"cd\"",
    "2.5 'ab'",
    "2.5 :s",
    "\"cd\" 7",
    "\"cd\" 2.5",
    "\"cd\" 'ab'",
    "\"cd\" :s",
    "'ab' 7",
    "'ab' 2.5",
    "'ab' \"cd\"",
    "'ab' :s",
    ":s 7",
    ":s 2.5",
    ":s \"cd\"",
    ":s 'ab'",
    "$ == 1 ?> 'cd' |> 'ab'",
    "'ab' 'ab' \"cd\" \"cd\"",
    // symbols and their names: a symbol written in one program, the same symbol made from text at run time in another,
    // and both turned back into text (the name table is shared by everything in the data object)
    ":total ~# \"\"",
    "\"total\" ~# :k",
    "(:total ~# \"\") ~# :k",
    "(\"total\" ~# :k) ~# \"\"",
    ":héllo ~# \"\"",
    "\"héllo\" ~# :k",
    ":total == (\"total\" ~# :k)",
    ":other ~# \"\"",
    // lists the runtime makes (header reserved first, items created afterwards)
    "\"abc\" ~# (1, 2)",
    "'ab' ~# (,)",
    "(\"abc\" ~# (1, 2)) . 1",
];

/// one-constant programs whose constants are near misses of each other: texts, byte lists and symbols of several
/// lengths that differ in one position only (first, middle or last), and the same number as integer and float
pub fn near_miss_programs() -> Vec<String> {
    let mut out: Vec<String> = vec!["7".into(), "7.0".into(), "8".into(), "0".into(), "0.0".into(), "07_10".into()];
    for len in [3usize, 33, 65, 100, 300] {
        for (open, close) in [("\"", "\""), ("'", "'"), (":", "")] {
            let base: Vec<char> = (0..len).map(|i| (b'c' + (i % 20) as u8) as char).collect();
            out.push(format!("{}{}{}", open, base.iter().collect::<String>(), close));
            for pos in [0, len / 2, len - 1] {
                let mut v = base.clone();
                v[pos] = 'a';
                out.push(format!("{}{}{}", open, v.iter().collect::<String>(), close));
            }
        }
    }
    out
}

#[derive(Clone, PartialEq, Debug)]
struct Snapshot {
    instructions: Vec<(Instruction, Option<usize>)>,
    jumps: Vec<Option<usize>>,
    constants: Vec<String>,
}

fn snapshot<D: GD>(d: &D, ext: &Extent) -> Snapshot {
    let instructions = stream(d, ext);
    let jumps = (ext.jumps.0..ext.jumps.1).map(|j| d.get_from_jump_table(j)).collect();
    let constants = instructions.iter().filter_map(|(i, a)| if matches!(i, Instruction::Put | Instruction::Resolve) { a.map(|a| format!("{}@{}", readback(d, a), a)) } else { None }).collect();
    Snapshot { instructions, jumps, constants }
}

struct Built {
    text: String,
    ext: Extent,
    snap: Snapshot,
    alone: Option<V>,
}

fn input_value() -> V {
    V::List(vec![pair(sym("k"), V::Int(3)), pair(sym("j"), V::Int(4))])
}

fn run_entry<D: GD>(d: &mut D, entry: usize, input: &V) -> Option<V> {
    let ia = value::build_value(d, input).ok()?;
    match run_program(d, entry, Some(ia), 4000) {
        RunEnd::Finished(_) => d.get_current_value().map(|a| readback(d, a)),
        _ => None,
    }
}

fn judge_sequence<D: GD>(d: &mut D, imp: Impl, programs: &[(String, ParseResult, Option<V>)], interleave: &[bool], ctx: &mut CaseCtx) {
    let input = input_value();
    let mut built: Vec<Built> = vec![];
    for (k, (text, parsed, alone)) in programs.iter().enumerate() {
        let (i0, j0, d0) = snapshot_lens(d);
        let b = match build_g(parsed, d) {
            Err(p) => {
                ctx.fail(format!("build-panic@{}", p.loc), format!("building {:?} as program #{} into a shared {} object", text, k, imp.name()));
                return;
            }
            Ok(Err(e)) => {
                if k > 0 {
                    ctx.fail("build-rejected-only-in-shared-object", format!("{:?} builds alone but is rejected as program #{} of a shared {} object: {}", text, k, imp.name(), e));
                }
                return;
            }
            Ok(Ok(b)) => b,
        };
        let (i1, j1, d1) = snapshot_lens(d);
        let ext = Extent { instr: (i0, i1), jumps: (j0, j1), data: (d0, d1), entry: *b.jump_index() };
        // the new program refers only to its own pieces
        let meta: Vec<Option<usize>> = b.instruction_metadata().iter().map(|m| m.get_parse_node_index()).collect();
        for f in streamcheck(d, &ext, &meta, parsed.get_nodes().len()) {
            if f.sig.starts_with("jump-entry-outside-own-instructions") && crate::checks::c05::has_empty_group(&lex_g(text).ok().and_then(|r| r.ok()).unwrap_or_default()) {
                continue;
            }
            ctx.fail(format!("refers-outside-own-pieces:{}", f.sig), format!("{:?} built as program #{} into a shared {} object: {} — {}", text, k, imp.name(), f.detail, render_stream(d, &ext)));
        }
        // earlier programs are untouched
        for (e, old) in built.iter().enumerate() {
            let now = snapshot(d, &old.ext);
            if now != old.snap {
                let what = if now.instructions != old.snap.instructions {
                    "instructions"
                } else if now.jumps != old.snap.jumps {
                    "jump-entries"
                } else {
                    "constants"
                };
                ctx.fail(
                    format!("earlier-program-changed:{}", what),
                    format!("building {:?} (program #{}) changed the {} of earlier program #{} {:?} in a shared {} object: before {:?} after {:?}", text, k, what, e, old.text, imp.name(), old.snap, now),
                );
                return;
            }
        }
        built.push(Built { text: text.clone(), ext, snap: snapshot(d, &ext), alone: alone.clone() });
        // interleave: run an earlier (or this) program to completion between builds
        if interleave.get(k).copied().unwrap_or(false) {
            let which = k / 2;
            let target = &built[which];
            let got = run_entry(d, target.ext.entry, &input);
            ctx.sub_evals += 1;
            // a program that fails when built alone (e.g. the empty program, recorded under C06) has no baseline to compare with
            if target.alone.is_some() && !matches!((&got, &target.alone), (Some(a), Some(b)) if same(a, b)) {
                ctx.fail(
                    format!("shared-run-differs-from-alone:between-builds{}", unsettled_tag(&target.text, &input, imp)),
                    format!("{:?} (program #{} of {}) run between builds on {} gives {} but alone it gives {}", target.text, which, programs.len(), imp.name(), show(&got), show(&target.alone)),
                );
            }
        }
    }
    // every program from its own entry
    for (k, b) in built.iter().enumerate() {
        let got = run_entry(d, b.ext.entry, &input);
        ctx.sub_evals += 1;
        if b.alone.is_some() && !matches!((&got, &b.alone), (Some(a), Some(x)) if same(a, x)) {
            ctx.fail(
                format!("shared-run-differs-from-alone:after-all-builds{}", unsettled_tag(&b.text, &input, imp)),
                format!("{:?} (program #{} of {}: {:?}) run from its entry {} on {} gives {} but alone it gives {}", b.text, k, built.len(), programs.iter().map(|p| p.0.as_str()).collect::<Vec<_>>(), b.ext.entry, imp.name(), show(&got), show(&b.alone)),
            );
        }
        let now = snapshot(d, &b.ext);
        if now != b.snap {
            ctx.fail("program-changed-by-executions".to_string(), format!("{:?} (program #{}) changed after executions in a shared {} object", b.text, k, imp.name()));
        }
    }
}

fn show(v: &Option<V>) -> String {
    match v {
        Some(v) => v.to_string(),
        None => "no value (error / did not finish)".into(),
    }
}

fn judge(texts: &[String], interleave: &[bool], ctx: &mut CaseCtx) {
    ctx.render(|| format!("{:?} interleave {:?}", texts, interleave));
    for imp in Impl::BOTH {
        let mut programs = vec![];
        for t in texts {
            let parsed = match front_end(t, None) {
                Ok(p) => p,
                Err(_) => {
                    ctx.class("a-program-not-accepted");
                    return;
                }
            };
            let alone = match run_real(imp, t, None, &input_value(), 4000) {
                Got::Value(v) => Some(v),
                Got::Rejected(..) => {
                    ctx.class("a-program-not-accepted");
                    return;
                }
                _ => None,
            };
            programs.push((t.clone(), parsed, alone));
        }
        match imp {
            Impl::Simple => judge_sequence(&mut new_simple(), imp, &programs, interleave, ctx),
            Impl::Basic => judge_sequence(&mut new_basic(), imp, &programs, interleave, ctx),
        }
    }
    ctx.class("judged");
    let with_jumps = texts.iter().filter(|t| t.contains("?>") || t.contains("&&") || t.contains("||") || t.contains('{')).count();
    if with_jumps >= 2 {
        ctx.nontrivial(fnv(format!("{:?}{:?}", texts, interleave).as_bytes()));
    }
}

impl Check for C20Check {
    fn id(&self) -> &'static str {
        "C20"
    }
    fn rule(&self) -> String {
        format!(
            "Phase pool-pairs: every ordered pair of a pool of {} programs (empty program, constants, conditionals and chains, logic, nested expressions with all apply forms, reapply loop, side effect, sequencing, identifier look-ups, shared constants), with and without an execution between the two builds; \
             phase random-sequences: 2..5 programs drawn from the pool and from random core-language ASTs, in tape-chosen order with tape-chosen interleaved executions. phase near-miss-constants: every ordered pair of one-constant programs whose constants are texts, byte lists and symbols of 3..300 characters differing in one position only (first, middle, last), and equal numbers of different kind. Each sequence is built into one SimpleGarnishData and one BasicGarnishData. \
             Oracle: after every later build, the instruction range, jump entries and constants (read back) of every earlier program are unchanged; every operand of the new program names something inside the ranges its own build created (C05's stream check with the build's extents); \
             each program run from its reported entry — between builds and after all builds — yields the same value as when built alone into a fresh object. \
             Non-trivial = at least two programs of the sequence own jump entries beyond their root; distinct = distinct (sequence, interleaving).",
            POOL.len()
        )
    }
    fn assumptions(&self) -> Vec<String> {
        vec!["interleaved executions run to completion (an aborted run legitimately leaves frames behind)".into(), "values are compared structurally; expression values by kind".into()]
    }
    fn phases(&self, tier: Tier) -> Vec<Phase> {
        let n = POOL.len() as u64;
        let m = near_miss_programs().len() as u64;
        vec![
            Phase::exhaustive("pool-pairs", n * n * 2).with_chunk(64),
            Phase::random("random-sequences", tier.pick(60_000, 800_000), 200).with_min_tape(40).with_chunk(256),
            Phase::exhaustive("near-miss-constants", m * m * 2).with_chunk(64),
        ]
    }
    fn run(&self, _tier: Tier, phase: usize, input: &Input, ctx: &mut CaseCtx) {
        match (phase, input) {
            (0, Input::Index(i)) => {
                let n = POOL.len() as u64;
                let inter = i % 2 == 1;
                let r = i / 2;
                let texts = vec![POOL[(r / n) as usize].to_string(), POOL[(r % n) as usize].to_string()];
                ctx.class("pool-pair");
                judge(&texts, &[inter, false], ctx);
            }
            (2, Input::Index(i)) => {
                let near = near_miss_programs();
                let n = near.len() as u64;
                let inter = i % 2 == 1;
                let r = i / 2;
                let texts = vec![near[(r / n) as usize].clone(), near[(r % n) as usize].clone()];
                ctx.class("near-miss-constants");
                judge(&texts, &[inter, false], ctx);
            }
            (1, Input::Tape(t)) => {
                let mut t = Tape::new(t);
                let k = 2 + t.choose(4);
                let mut texts = vec![];
                let mut inter = vec![];
                for _ in 0..k {
                    if t.chance(110) {
                        texts.push(POOL[t.choose(POOL.len())].to_string());
                    } else {
                        let ast = astgen::random_ast(&mut t, 3);
                        match astgen::printable(&ast) {
                            Some((toks, _, _)) => texts.push(render(&toks, Layout::Spaced)),
                            None => texts.push("5".to_string()),
                        }
                    }
                    inter.push(t.chance(100));
                }
                ctx.class("random-sequence");
                judge(&texts, &inter, ctx);
            }
            _ => {}
        }
    }
}

/// root-cause key for a differing run: does the program look a symbol up in a list that holds that key twice? (the
/// reference evaluator leaves that look-up undefined; SimpleGarnishData answers it by item address, see the recorded finding)
fn unsettled_tag(text: &str, input: &V, imp: Impl) -> &'static str {
    // a program that makes a symbol from text at run time (`"total" ~# :k`): on BasicGarnishData such a symbol has no name
    // of its own, so its text depends on whether another program in the object spelled it (recorded finding)
    if imp == Impl::Basic && text.contains("~# :") {
        return "[makes-a-symbol-from-text-at-run-time:Basic]";
    }
    unsettled_construct(text, input)
}

fn unsettled_construct(text: &str, input: &V) -> &'static str {
    let toks = match crate::model::refparse::tokens_from_text(text) {
        Ok(t) => t,
        Err(_) => return "",
    };
    let tree = match crate::model::refparse::Pratt::parse(&toks) {
        Ok(t) => t,
        Err(_) => return "",
    };
    let host = crate::model::refeval::Host::default();
    let mut ev = crate::model::refeval::Eval::new(&host, 20_000);
    match ev.run(&tree, input.clone()) {
        Err(crate::model::refeval::Stop::Undefined("duplicate-keys")) => "[looks-up-a-duplicated-list-key]",
        _ => "",
    }
}
