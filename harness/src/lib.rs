pub mod engine;
pub mod model;
pub mod checks;
