use gv::checks;
use gv::engine::core::Tier;
use gv::engine::orch::{RunOpts, run_check};
use gv::engine::worker::{WorkerArgs, run_worker};

fn usage() -> ! {
    eprintln!("usage: gv check <ID> <quick|thorough> | gv replay <ID> <path> | gv list");
    std::process::exit(2)
}

fn tier_of(s: &str) -> Tier {
    match s {
        "quick" => Tier::Quick,
        "thorough" => Tier::Thorough,
        _ => usage(),
    }
}

fn main() {
    // DataError captures a backtrace when these are on (slow; no oracle looks at it); set before any thread starts
    unsafe {
        std::env::set_var("RUST_BACKTRACE", "0");
        std::env::set_var("RUST_LIB_BACKTRACE", "0");
    }
    let args: Vec<String> = std::env::args().collect();
    if args.len() < 2 {
        usage();
    }
    match args[1].as_str() {
        "list" => {
            for c in checks::all() {
                println!("{}", c.id());
            }
        }
        "fuzzinfo" => {
            // the random phases of a check (thorough tier), for the coverage-guided stage's driver
            let c = checks::find(&args[2]).unwrap_or_else(|| usage());
            let phases: Vec<serde_json::Value> = c
                .phases(Tier::Thorough)
                .iter()
                .filter_map(|p| match p.kind {
                    gv::engine::core::PhaseKind::Random { max_tape, .. } => Some(serde_json::json!({"name": p.name, "max_tape": max_tape})),
                    _ => None,
                })
                .collect();
            println!("{}", serde_json::json!({"id": c.id(), "random_phases": phases}));
        }
        "check" => {
            if args.len() < 4 {
                usage();
            }
            let c = checks::find(&args[2]).unwrap_or_else(|| {
                eprintln!("gv: unknown check {}", args[2]);
                std::process::exit(2)
            });
            std::process::exit(run_check(c, RunOpts { tier: tier_of(&args[3]), replay_only: None }));
        }
        "replay" => {
            if args.len() < 4 {
                usage();
            }
            let c = checks::find(&args[2]).unwrap_or_else(|| usage());
            std::process::exit(run_check(c, RunOpts { tier: Tier::Quick, replay_only: Some(args[3].clone()) }));
        }
        "worker" => {
            // worker <ID> <tier> <shard> <nshards> <seed> <workdir> <resume|-> <mode> [replay files...]
            let c = checks::find(&args[2]).unwrap_or_else(|| usage());
            let resume = if args[8] == "-" {
                None
            } else {
                let mut it = args[8].split(':');
                Some((it.next().unwrap().parse().unwrap(), it.next().unwrap().parse().unwrap()))
            };
            let replay_only = args[9] == "replay-only" || args[9] == "confirm";
            let strict = args[9] == "replay-only";
            let wa = WorkerArgs {
                id: args[2].clone(),
                tier: tier_of(&args[3]),
                shard: args[4].parse().unwrap(),
                nshards: args[5].parse().unwrap(),
                seed: args[6].parse().unwrap(),
                workdir: args[7].clone(),
                resume,
                replay_files: args[10..].to_vec(),
                replay_only,
                strict,
            };
            std::process::exit(run_worker(c, wa));
        }
        _ => usage(),
    }
}
