#!/usr/bin/env python3
"""Coverage-guided stage of a thorough check (libFuzzer through cargo-fuzz).

usage: fuzz_stage.py <ID> [seconds-per-mode]

Modes: `tape` (bytes = choice tape of one of the check's random phases) for every check that has a random phase,
`text` (bytes = source text judged by the check's text-mode oracle) for the checks that have one.
The campaign itself decides nothing: every input libFuzzer saves (crash / timeout / oom) is turned into an ordinary
replay file and judged by `gv replay`; only what reproduces there, and is not an open known finding, is a violation.
The result is merged into /verif/evidence/<ID>.json under coverage.coverage_guided_stage.
Exit 0 = nothing reproduced, 1 = VIOLATION printed.  A stage that cannot run (no nightly toolchain, build failure)
is reported and recorded, and exits 0: the deciding run is the proptest/enumeration stage before it.
"""
import glob
import hashlib
import json
import os
import random
import re
import shutil
import struct
import subprocess
import sys
import time

ROOT = os.environ.get("GV_ROOT", os.path.dirname(os.path.dirname(os.path.abspath(__file__))))
FUZZ = os.path.join(ROOT, "fuzz")
GV = os.path.join(ROOT, "harness", "target", "release", "gv")
TEXT_MODE = {"C03", "C04", "C05", "C06", "C07", "C13", "C19"}
TRIPLE = "x86_64-unknown-linux-gnu"

TEXT_SEEDS = [
    "5 + 5", "1 2 3", "a, b, c", ":k = 3", "{ $ + 1 } <~ 5", "5 ~> { $ * 2 }", "$ < 3 ?> ^~ $ + 1 |> $", "x ?> 1 |> y !> 2 |> 3",
    "\"text\" 'b' '''b2'''", "(1, 2).0", "l.k", "5 [ 6 ] 7", "1 ;; 2", "a\n\nb", "@note 5 @@ line\n6", "0x_ff 0b101 3.5 1_000",
    "!! a && b || c ^^ d", "-- 5 ++ 6", "a <> b -> c", "1 .. 5", "x ~~", "`f` 5", "5 `f", "a `f` b", ":sym :: :other", "$? $! ()", "_. x ._ .|",
]


def log(msg):
    print("gv-fuzz: " + msg, flush=True)


def build():
    lock = os.path.join(FUZZ, ".build.lock")
    env = dict(os.environ, CARGO_NET_OFFLINE="true")
    cmd = "cd %s && flock .build.lock cargo +nightly fuzz build --fuzz-dir %s >build.log 2>&1" % (FUZZ, FUZZ)
    r = subprocess.run(["bash", "-c", cmd], env=env)
    return r.returncode == 0


def open_findings(pid):
    try:
        v = json.load(open(os.path.join(ROOT, "known_findings.json")))
    except Exception:
        return []
    arr = v.get("findings", []) if isinstance(v, dict) else v
    return [f.get("signature", "") for f in arr if f.get("status") == "open" and f.get("property") == pid]


def is_known(sig, known):
    return any(sig == k or (k.endswith("*") and sig.startswith(k[:-1])) for k in known)


def merge_stats(stats_dir):
    out = {"execs": 0, "judged": 0, "sub_evals": 0, "classes": {}, "known": {}, "samples": []}
    for f in glob.glob(os.path.join(stats_dir, "stats.*.json")):
        try:
            v = json.load(open(f))
        except Exception:
            continue
        for k in ("execs", "judged", "sub_evals"):
            out[k] += v.get(k, 0)
        for k, n in v.get("classes", {}).items():
            out["classes"][k] = out["classes"].get(k, 0) + n
        for k, n in v.get("known", {}).items():
            out["known"][k] = out["known"].get(k, 0) + n
        for s in v.get("samples", []):
            if s not in out["samples"] and len(out["samples"]) < 8:
                out["samples"].append(s)
    fps = set()
    for f in glob.glob(os.path.join(stats_dir, "fps.*.bin")):
        b = open(f, "rb").read()
        fps.update(struct.unpack("<%dQ" % (len(b) // 8), b[: len(b) // 8 * 8]))
    out["distinct_nontrivial"] = len(fps)
    return out


def run_mode(pid, mode, seconds, seed, info):
    work = os.path.join(FUZZ, "corpus-run", "%s-%s" % (pid, mode))
    shutil.rmtree(work, ignore_errors=True)
    for d in ("corpus", "art", "stats", "replay"):
        os.makedirs(os.path.join(work, d))
    rng = random.Random(seed * 1000003 + sum(map(ord, pid + mode)))
    if mode == "text":
        n = 0
        for s in TEXT_SEEDS:
            open(os.path.join(work, "corpus", "seed%03d" % n), "w").write(s)
            n += 1
        scripts = sorted(glob.glob("/repo/tests/scripts/**/*.garnish", recursive=True))
        for f in scripts:
            try:
                t = open(f).read()
            except Exception:
                continue
            if len(t) <= 400:
                open(os.path.join(work, "corpus", "seed%03d" % n), "w").write(t)
                n += 1
        max_len = 400
    else:
        phases = info["random_phases"]
        max_len = max(p["max_tape"] for p in phases) + 1
        for n in range(48):
            p = n % len(phases)
            ln = rng.randint(max(4, phases[p]["max_tape"] // 4), phases[p]["max_tape"])
            open(os.path.join(work, "corpus", "seed%03d" % n), "wb").write(bytes([p]) + bytes(rng.getrandbits(8) for _ in range(ln)))
    exe = os.path.join(FUZZ, "target", TRIPLE, "release", mode)
    jobs = int(os.environ.get("GV_JOBS", "16"))
    env = dict(os.environ, GV_FUZZ_PROP=pid, GV_FUZZ_STATS_DIR=os.path.join(work, "stats"), GV_ROOT=ROOT, RUST_BACKTRACE="0", RUST_LIB_BACKTRACE="0")
    cmd = [exe, os.path.join(work, "corpus"), "-fork=%d" % jobs, "-max_total_time=%d" % seconds, "-timeout=30", "-rss_limit_mb=4096",
           "-max_len=%d" % max_len, "-len_control=0", "-seed=%d" % (seed + 1), "-ignore_crashes=1", "-ignore_timeouts=1", "-ignore_ooms=1",
           "-artifact_prefix=" + os.path.join(work, "art") + "/"]
    if mode == "text":
        cmd.append("-dict=" + os.path.join(FUZZ, "garnish.dict"))
    t0 = time.time()
    try:
        r = subprocess.run(cmd, env=env, stdout=subprocess.PIPE, stderr=subprocess.STDOUT, timeout=seconds + 600, cwd=work)
        tail = r.stdout.decode("utf-8", "replace")
    except subprocess.TimeoutExpired as e:
        tail = (e.stdout or b"").decode("utf-8", "replace")
        log("%s %s: libFuzzer did not stop in time; killed" % (pid, mode))
    wall = time.time() - t0
    cov = ft = corp = None
    for m in re.finditer(r"cov: (\d+) ft: (\d+) corp: (\d+)", tail):
        cov, ft, corp = int(m.group(1)), int(m.group(2)), int(m.group(3))
    st = merge_stats(os.path.join(work, "stats"))
    arts = sorted(glob.glob(os.path.join(work, "art", "*")), key=lambda f: (os.path.getsize(f), f))
    viols = {}
    known = open_findings(pid)
    not_reproduced = 0
    unusable = 0
    for k, a in enumerate(arts[:60]):
        data = open(a, "rb").read()
        rec = {"property": pid, "tier": "thorough", "found_by": "libFuzzer %s stage, artifact %s" % (mode, os.path.basename(a))}
        if mode == "text":
            try:
                rec["text"] = data.decode("utf-8")
            except UnicodeDecodeError:
                unusable += 1
                continue
            rec["kind"] = "text"
        else:
            if len(data) < 2:
                unusable += 1
                continue
            phases = info["random_phases"]
            rec["kind"] = "tape"
            rec["phase_name"] = phases[data[0] % len(phases)]["name"]
            rec["tape_hex"] = data[1:].hex()
        rfile = os.path.join(work, "replay", "case%03d.json" % k)
        json.dump(rec, open(rfile, "w"), indent=1)
        rr = subprocess.run([GV, "replay", pid, rfile], env=dict(env, GV_ROOT=ROOT), stdout=subprocess.PIPE, stderr=subprocess.STDOUT)
        out = rr.stdout.decode("utf-8", "replace")
        # `gv replay` is strict (it reports known findings too): the committed list is applied here, read-only
        sigs = [x for x in re.findall(r"^\s+signature: (.*)$", out, re.M) if not is_known(x.strip(), known)]
        if rr.returncode == 1 and sigs:
            for s in sigs:
                if s not in viols:
                    viols[s] = (rfile, out)
        else:
            not_reproduced += 1
    reported = []
    for sig, (rfile, out) in sorted(viols.items()):
        h = hashlib.sha1(open(rfile, "rb").read()).hexdigest()[:8]
        name = "fuzz_" + re.sub(r"[^A-Za-z0-9]+", "_", sig)[:80] + "-" + h + ".json"
        dst_dir = os.path.join(ROOT, "replays", pid)
        os.makedirs(dst_dir, exist_ok=True)
        dst = os.path.join(dst_dir, name)
        shutil.copy(rfile, dst)
        print("VIOLATION property=%s replay=%s" % (pid, dst))
        print("  signature: %s" % sig)
        for l in out.splitlines():
            if l.strip().startswith(("case:", "detail:")):
                print("  " + l.strip()[:600])
        reported.append({"signature": sig, "replay": dst})
    summary = {
        "mode": mode, "engine": "libFuzzer (cargo-fuzz), fork mode, %d jobs" % jobs, "seconds": round(wall, 1), "seed": seed,
        "executions": st["execs"], "judged": st["judged"], "oracle_evaluations": st["sub_evals"], "distinct_nontrivial": st["distinct_nontrivial"],
        "class_histogram": st["classes"], "known_finding_hits": st["known"], "samples": st["samples"],
        "final_coverage_edges": cov, "final_features": ft, "final_corpus": corp,
        "artifacts_saved": len(arts), "artifacts_not_reproduced_by_gv_replay": not_reproduced, "artifacts_unusable": unusable,
        "violations": reported,
    }
    log("%s %s: %d executions (%d judged, %d distinct non-trivial) in %.0fs, cov=%s corpus=%s, artifacts=%d reproduced-violations=%d" % (
        pid, mode, st["execs"], st["judged"], st["distinct_nontrivial"], wall, cov, corp, len(arts), len(reported)))
    shutil.rmtree(work, ignore_errors=True)
    return summary


def main():
    pid = sys.argv[1]
    seconds = int(sys.argv[2]) if len(sys.argv) > 2 else int(os.environ.get("GV_FUZZ_SECONDS", "180"))
    seed = int(os.environ.get("VERIF_SEED", "0") or 0)
    ev_path = os.path.join(ROOT, "evidence", pid + ".json")
    info = json.loads(subprocess.run([GV, "fuzzinfo", pid], stdout=subprocess.PIPE).stdout.decode() or "{}")
    modes = []
    if info.get("random_phases"):
        modes.append("tape")
    if pid in TEXT_MODE:
        modes.append("text")
    stage = {"modes": []}
    rc = 0
    if not modes:
        stage["skipped"] = "the check enumerates a finite matrix exhaustively; there is no generator for a coverage-guided stage to steer"
    elif not build():
        stage["skipped"] = "cargo +nightly fuzz build failed (see fuzz/build.log)"
        log("%s: stage skipped: %s" % (pid, stage["skipped"]))
    else:
        for m in modes:
            s = run_mode(pid, m, seconds, seed, info)
            stage["modes"].append(s)
            if s["violations"]:
                rc = 1
    try:
        ev = json.load(open(ev_path))
        ev["coverage"]["coverage_guided_stage"] = stage
        if rc:
            ev["violations"] = ev.get("violations", 0) + sum(len(m["violations"]) for m in stage["modes"])
        json.dump(ev, open(ev_path, "w"), indent=1)
    except Exception as e:
        log("cannot merge into %s: %s" % (ev_path, e))
    sys.exit(rc)


if __name__ == "__main__":
    main()
