#!/usr/bin/env python3
"""tools/mutlab.py — a scratch mutation lab (sensitivity analysis of the checks, never touches /repo or /verif).

  mutlab.py setup <lab>                       create <lab>/repo (git worktree of /repo HEAD) and <lab>/verif (copy of
                                              /verif with the harness's path dependencies pointing at <lab>/repo); cold build
  mutlab.py list <file>                       print the number of mutation sites per operator for a repo-relative file
  mutlab.py run <lab> <file> <n> <seed>       sample n syntactic mutants of <file>; for each: compile, run the repository's
                                              test suite (a mutant that loses one of the 1500 stable passes is 'killed-by-tests'
                                              and of no interest), then run the quick checks (those anchored in the file first)
                                              until one reports a VIOLATION; append one JSON line per mutant to <lab>/results.jsonl
  mutlab.py teardown <lab>                    remove the worktree and the lab directory

A surviving mutant is either equivalent, irrelevant to every listed property, or a gap in the checks: triaged by hand."""
import json, os, random, re, shutil, subprocess, sys, time

ENV = dict(os.environ, CARGO_NET_OFFLINE='true', RUST_BACKTRACE='0', RUST_LIB_BACKTRACE='0')


def sh(cmd, cwd=None, timeout=3600, env=None):
    try:
        p = subprocess.run(cmd, cwd=cwd, env=env or ENV, stdout=subprocess.PIPE, stderr=subprocess.STDOUT, text=True, timeout=timeout, shell=isinstance(cmd, str))
        return p.returncode, p.stdout
    except subprocess.TimeoutExpired as e:
        return 124, (e.stdout or '') if isinstance(e.stdout, str) else ''


def setup(lab):
    os.makedirs(lab, exist_ok=True)
    head = subprocess.run(['git', '-C', '/repo', 'rev-parse', 'HEAD'], stdout=subprocess.PIPE, text=True).stdout.strip()
    if not os.path.isdir(f'{lab}/repo'):
        sh(['git', '-C', '/repo', 'worktree', 'add', '--detach', f'{lab}/repo', head])
    if os.path.isdir(f'{lab}/verif'):
        shutil.rmtree(f'{lab}/verif')
    sh(f"rsync -a --exclude target --exclude .git --exclude seeded --exclude fuzz /verif/ {lab}/verif/")
    ct = open(f'{lab}/verif/harness/Cargo.toml').read().replace('"/repo/', f'"{lab}/repo/')
    open(f'{lab}/verif/harness/Cargo.toml', 'w').write(ct)
    print('building harness ...'); print(sh('cargo build --release --offline 2>&1 | tail -2', cwd=f'{lab}/verif/harness')[1])
    print('building tests ...'); print(sh('cargo test --workspace --no-run --offline 2>&1 | tail -2', cwd=f'{lab}/repo')[1])


def refresh(lab):
    """bring the lab's copy of the harness up to date with /verif (after the checks were extended)"""
    sh(f"rsync -a --delete --exclude target --exclude .git --exclude seeded --exclude fuzz --exclude harness/Cargo.toml /verif/ {lab}/verif/")


REL = [(' < ', ' <= '), (' <= ', ' < '), (' > ', ' >= '), (' >= ', ' > '), (' == ', ' != '), (' != ', ' == ')]


def sites(path):
    src = open(path).read().split('\n')
    end = len(src)
    for i, l in enumerate(src):
        if l.strip().startswith('#[cfg(test)]'):
            end = i
            break
    out = []
    for i in range(end):
        l = src[i]
        s = l.strip()
        if not s or s.startswith('//') or s.startswith('#[') or s.startswith('use ') or 'assert' in s or s.startswith('pub use') or s.startswith('mod '):
            continue
        code = l.split('//')[0] if '"' not in l else l
        for a, b in REL:
            for m in re.finditer(re.escape(a), code):
                if a in (' < ', ' > ') and ('<' in code[:m.start()].split()[-1:] or 'fn ' in code or 'impl' in code or 'where' in code):
                    continue
                out.append(('rel', i, l[:m.start()] + b + l[m.end():]))
        for m in re.finditer(r' \+ 1\b| - 1\b', code):
            out.append(('off1', i, l[:m.start()] + l[m.end():]))
        for m in re.finditer(r' \+ (?!=)', code):
            if 'impl' not in code and 'where' not in code and 'dyn' not in code:
                out.append(('arith', i, l[:m.start()] + ' - ' + l[m.end():]))
        for m in re.finditer(r' - (?!=)', code):
            out.append(('arith', i, l[:m.start()] + ' + ' + l[m.end():]))
        for m in re.finditer(r' && ', code):
            out.append(('bool', i, l[:m.start()] + ' || ' + l[m.end():]))
        for m in re.finditer(r' \|\| ', code):
            out.append(('bool', i, l[:m.start()] + ' && ' + l[m.end():]))
        for m in re.finditer(r'\btrue\b', code):
            out.append(('const', i, l[:m.start()] + 'false' + l[m.end():]))
        for m in re.finditer(r'\bfalse\b', code):
            out.append(('const', i, l[:m.start()] + 'true' + l[m.end():]))
        for m in re.finditer(r'(?<![\w.#\'"])(\d+)(?![\w.\'"])', code):
            if '=>' in code and code.index('=>') > m.start():
                continue
            n = int(m.group(1))
            out.append(('int', i, l[:m.start()] + str(1 if n == 0 else n - 1) + l[m.end():]))
        if re.match(r'^\s*(self\.)?[a-z_][\w.\[\]]*(\(.*\))?\s*[+\-|]?=[^=>].*;\s*$', code) and not s.startswith('let '):
            out.append(('del-assign', i, ''))
        if re.match(r'^\s*[a-z_][\w.:]*(::<.*>)?\(.*\)\??;\s*$', code) and not s.startswith('return'):
            out.append(('del-call', i, ''))
        m = re.match(r'^(\s*(?:\} else )?if )(?!let)(.*)( \{\s*)$', code)
        if m:
            out.append(('negate-if', i, m.group(1) + '!(' + m.group(2) + ')' + m.group(3)))
        if re.search(r'\bleft\b', code) and re.search(r'\bright\b', code) and '=>' not in code:
            sw = re.sub(r'\bleft\b', '\0', l); sw = re.sub(r'\bright\b', 'left', sw); sw = sw.replace('\0', 'right')
            out.append(('swap-lr', i, sw))
        if re.match(r'^\s*continue;\s*$', code):
            out.append(('continue-break', i, l.replace('continue', 'break')))
        if re.match(r'^\s*break;\s*$', code):
            out.append(('continue-break', i, l.replace('break', 'continue')))
        m = re.search(r'\.skip\((\w+)\)|\.take\((\w+)\)', code)
        if m:
            out.append(('drop-adapter', i, l[:m.start()] + l[m.end():]))
    return src, out


def anchored_checks(rel):
    order = []
    for line in open('/verif/properties.jsonl'):
        p = json.loads(line)
        if rel in p['anchors']['files']:
            order.append(p['id'])
    rest = ['C%02d' % i for i in range(1, 21) if 'C%02d' % i not in order]
    return order, rest


def baseline(lab):
    base = json.load(open('/root/.vp/BASELINE.json'))
    stable = set(base['stable_pass'])
    rc, out = sh(['cargo', 'test', '--workspace', '--no-fail-fast', '--offline'], cwd=f'{lab}/repo', timeout=900)
    if rc == 124:
        return 'timeout', 0
    if 'error: could not compile' in out or re.search(r'^error(\[E\d+\])?:', out, re.M) and 'test result' not in out:
        return 'nocompile', 0
    crate = None; passed = set()
    for line in out.splitlines():
        m = re.search(r'Running (?:unittests )?(\S+) \(target/debug/deps/([A-Za-z0-9_]+?)-[0-9a-f]{16}\)', line)
        if m:
            crate = ('garnish_lang_tests::' + m.group(2)) if m.group(1).startswith('tests/') else m.group(2)
            continue
        m = re.match(r'test (\S+) \.\.\. (ok|FAILED|ignored)', line)
        if m and crate and m.group(2) == 'ok':
            passed.add(crate + '::' + m.group(1))
    missing = stable - passed
    if 'could not compile' in out and len(passed) < 100:
        return 'nocompile', len(missing)
    return ('survives-tests' if not missing else 'killed-by-tests'), len(missing)


def run(lab, rel, n, seed, only=None):
    path = f'{lab}/repo/{rel}'
    sh(['git', 'checkout', '--', '.'], cwd=f'{lab}/repo')
    src, muts = sites(path)
    rnd = random.Random(int(seed))
    rnd.shuffle(muts)
    first, rest = anchored_checks(rel)
    done = set()
    if os.path.exists(f'{lab}/results.jsonl'):
        for l in open(f'{lab}/results.jsonl'):
            r = json.loads(l); done.add((r['file'], r['line'], r['new']))
    # results of other labs count as done too
    for other in os.listdir('/tmp'):
        f = f'/tmp/{other}/results.jsonl'
        if other.startswith('lab') and os.path.exists(f) and f != f'{lab}/results.jsonl':
            for l in open(f):
                r = json.loads(l); done.add((r['file'], r['line'], r['new']))
    count = 0
    for op, i, new in muts:
        if count >= int(n):
            break
        if only and op not in only:
            continue
        if (rel, i + 1, new.strip()) in done:
            continue
        count += 1
        t0 = time.time()
        lines = list(src); lines[i] = new
        open(path, 'w').write('\n'.join(lines))
        rec = {'file': rel, 'line': i + 1, 'op': op, 'old': src[i].strip(), 'new': new.strip()}
        rc, out = sh('cargo build --release --offline 2>&1 | tail -5', cwd=f'{lab}/verif/harness', timeout=1200)
        if 'error' in out and 'Finished' not in out:
            rec['status'] = 'nocompile'
        else:
            st, miss = baseline(lab)
            rec['status'] = st; rec['tests_lost'] = miss
            if st == 'survives-tests':
                caught = []
                env = dict(ENV, GV_ROOT=f'{lab}/verif')
                for cid in first + rest:
                    rc, out = sh([f'{lab}/verif/harness/target/release/gv', 'check', cid, 'quick'], cwd=f'{lab}/verif', env=env, timeout=1500)
                    if rc == 1 or 'VIOLATION' in out:
                        sig = re.search(r'signature: (.*)', out)
                        case = re.search(r'case: (.*)', out)
                        caught.append({'check': cid, 'sig': (sig.group(1)[:160] if sig else ''), 'case': (case.group(1)[:160] if case else '')})
                        break
                    if rc not in (0, 1):
                        caught.append({'check': cid, 'sig': 'INCONCLUSIVE rc=%d' % rc, 'case': out[-300:]})
                        break
                rec['caught'] = caught
                rec['status'] = 'caught' if caught else 'SURVIVES-ALL'
                shutil.rmtree(f'{lab}/verif/replays', ignore_errors=True)
        rec['secs'] = round(time.time() - t0)
        open(path, 'w').write('\n'.join(src))
        open(f'{lab}/results.jsonl', 'a').write(json.dumps(rec) + '\n')
        print(json.dumps(rec)[:400], flush=True)
    sh(['git', 'checkout', '--', '.'], cwd=f'{lab}/repo')


if __name__ == '__main__':
    cmd = sys.argv[1]
    if cmd == 'setup':
        setup(sys.argv[2])
    elif cmd == 'refresh':
        refresh(sys.argv[2])
    elif cmd == 'list':
        _, m = sites('/repo/' + sys.argv[2])
        from collections import Counter
        print(len(m), Counter(o for o, _, _ in m))
    elif cmd == 'run':
        run(sys.argv[2], sys.argv[3], sys.argv[4], sys.argv[5], only=set(sys.argv[6].split(',')) if len(sys.argv) > 6 else None)
    elif cmd == 'teardown':
        lab = sys.argv[2]
        sh(['git', '-C', '/repo', 'worktree', 'remove', '--force', f'{lab}/repo'])
        shutil.rmtree(lab, ignore_errors=True)
