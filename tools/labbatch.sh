#!/bin/bash
# labbatch.sh <lab> mA mB ID... : try both changes of each ID against its own check in the lab
LAB=$1; MA=$2; MB=$3; shift 3
for id in "$@"; do for m in $MA $MB; do
  echo "#### $id $m"
  /tmp/labtry.sh $LAB /tmp/out-$id/$m/patch.diff $id 2>&1 | cut -c1-400
done; done
