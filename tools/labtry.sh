#!/bin/bash
# labtry.sh <lab> <patch> <ID>... : apply patch in lab repo, build lab harness, run quick checks, revert
LAB=$1; PATCH=$2; shift 2
cd $LAB/repo && git checkout -q -- . && git apply $PATCH || { echo "NOAPPLY $PATCH"; exit 3; }
cd $LAB/verif/harness && cargo build --release --offline 2>&1 | grep -E "^error" | head -3
for id in "$@"; do
  out=$(cd $LAB/verif && GV_ROOT=$LAB/verif RUST_BACKTRACE=0 harness/target/release/gv check $id quick 2>&1); rc=$?
  echo "== $id rc=$rc $(echo "$out" | grep '^gv:' | tail -1 | cut -c1-120)"
  echo "$out" | grep -A3 '^VIOLATION' | cut -c1-260 | head -8
done
rm -rf $LAB/verif/replays
cd $LAB/repo && git checkout -q -- .
