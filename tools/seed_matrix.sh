#!/bin/bash
# tools/seed_matrix.sh [<seed-dir-name>...]   for each seeded change (default: all) apply it to /repo, run the quick
# check of its own property, undo it; print one line per seed and update meta.json (caught_by_quick_checks, check_report)
cd /verif
seeds=("$@"); [ ${#seeds[@]} -eq 0 ] && seeds=($(ls seeded))
for s in "${seeds[@]}"; do
  id=${s%%-*}; m=${s##*-}
  [ -f seeded/$s/patch.diff ] || continue
  out=$(SKIP_REBUILD=1 LINES_MAX=4 tools/try_mutation.sh /verif/seeded/$s/patch.diff $id 2>&1)
  code=$(echo "$out" | grep -o "exit=[0-9]*" | head -1)
  sig=$(echo "$out" | grep "signature:" | head -1 | sed 's/^ *signature: //' | cut -c1-160)
  case=$(echo "$out" | grep "case:" | head -1 | sed 's/^ *case: //' | cut -c1-120)
  if echo "$out" | grep -q "DOES NOT APPLY"; then echo "$s NOAPPLY"; continue; fi
  echo "$s $code sig=[$sig] case=[$case]"
  if [ "$code" = "exit=1" ]; then
    python3 tools/record_seed.py $id $m $id "$sig on $case" >/dev/null
  else
    python3 tools/record_seed.py $id $m none "not reported by bin/check $id quick ($code)" >/dev/null
  fi
done
(cd /verif/harness && cargo build --release --offline >/dev/null 2>&1)
echo "seed_matrix finished"
