#!/bin/bash
# tools/seed_matrix_lab.sh <lab> <seed-dir-name>...   like seed_matrix.sh, but in a scratch lab (tools/mutlab.py setup):
# the change is applied to <lab>/repo, the lab's copy of the harness is rebuilt against it and the seed's own quick check run;
# /repo and /verif/harness are not touched. Updates seeded/<name>/meta.json.
LAB=$1; shift
for s in "$@"; do
  id=${s%%-*}; m=${s##*-}; prop=$id
  case $id in F*) prop=$(python3 -c "import json;print(json.load(open('/verif/seeded/$s/agent_meta.json'))['property'][:3])");; esac
  [ -f /verif/seeded/$s/patch.diff ] || { echo "$s NOPATCH"; continue; }
  cd $LAB/repo && git checkout -q -- . && git checkout -q --detach $(git -C /repo rev-parse HEAD)
  if ! git apply /verif/seeded/$s/patch.diff 2>/dev/null; then echo "$s NOAPPLY"; continue; fi
  (cd $LAB/verif/harness && cargo build --release --offline >/dev/null 2>&1) || { echo "$s BUILD-FAILED"; git checkout -q -- .; continue; }
  out=$(cd $LAB/verif && GV_ROOT=$LAB/verif RUST_BACKTRACE=0 harness/target/release/gv check $prop quick 2>&1); code=$?
  sig=$(echo "$out" | grep "signature:" | head -1 | sed 's/^ *signature: //' | cut -c1-160)
  case=$(echo "$out" | grep "case:" | head -1 | sed 's/^ *case: //' | cut -c1-120)
  echo "$s exit=$code sig=[$sig] case=[$case]"
  if [ "$code" = "1" ]; then
    python3 /verif/tools/record_seed.py $id $m $prop "$sig on $case" >/dev/null
  else
    python3 /verif/tools/record_seed.py $id $m none "not reported by bin/check $prop quick (exit=$code)" >/dev/null
  fi
  rm -rf $LAB/verif/replays
  cd $LAB/repo && git checkout -q -- .
done
echo "seed_matrix_lab finished"
