#!/usr/bin/env python3
"""Regenerate the generated tables of DESIGN.md (open findings §6.3, seeded changes §6.5) from known_findings.json and
seeded/*/meta.json. The tables live between `<!-- BEGIN x -->` / `<!-- END x -->` markers."""
import glob, json, os, re
ROOT = os.path.dirname(os.path.dirname(os.path.abspath(__file__)))

def cell(s, n):
    s = (s or '').replace('\n', ' ').replace('|', '/')
    return s if len(s) <= n else s[: n - 1] + '…'

def findings_table():
    k = json.load(open(os.path.join(ROOT, 'known_findings.json')))
    rows = ['| property | signature | what fails | why not repaired |', '|---|---|---|---|']
    for f in k['findings']:
        if f.get('status') != 'open':
            continue
        what = f.get('what', '')
        why = 'a repository test pins the behaviour' if re.search(r'pins|pinned', what) else 'needs a redesign, not a small patch'
        rows.append('| %s | `%s` | %s | %s |' % (f['property'], f['signature'], cell(what, 330), why))
    return '\n'.join(rows)

def seeds_table():
    rows = ['| seed | change | caught by (quick tier) | what the check reported |', '|---|---|---|---|']
    for d in sorted(glob.glob(os.path.join(ROOT, 'seeded', '*'))):
        mp = os.path.join(d, 'meta.json')
        if not os.path.exists(mp):
            continue
        m = json.load(open(mp))
        caught = ', '.join(m.get('caught_by_quick_checks') or []) or '—'
        first, now = m.get('first_report'), m.get('check_report')
        report = now if not first or first == now else ('at first: %s; after the extension: %s' % (first, now))
        rows.append('| %s | %s | %s | %s |' % (os.path.basename(d), cell(m.get('summary'), 230), caught, cell(report, 300)))
    return '\n'.join(rows)

def put(text, name, body):
    b, e = '<!-- BEGIN %s -->' % name, '<!-- END %s -->' % name
    if b not in text:
        raise SystemExit('marker %s missing in DESIGN.md' % name)
    i, j = text.index(b) + len(b), text.index(e)
    return text[:i] + '\n' + body + '\n' + text[j:]

p = os.path.join(ROOT, 'DESIGN.md')
t = open(p).read()
t = put(t, 'open-findings', findings_table())
t = put(t, 'seeds', seeds_table())
open(p, 'w').write(t)
print('DESIGN.md tables regenerated')
