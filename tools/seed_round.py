#!/usr/bin/env python3
"""tools/seed_round.py <mA> <mB> [<ID>...] — prepare a round of seeded changes: one scratch worktree /tmp/wt-<ID> per property
at /repo's HEAD, an output directory /tmp/out-<ID>/{mA,mB}, and the prompt for the sub-agent in /tmp/agents/prompt-<ID>.txt.
The prompt holds the property's text, the rules for the change, and one-line descriptions of the changes earlier
rounds already produced for that property (so that the new ones are different) — nothing about the checks in /verif."""
import json, os, subprocess, sys
ma, mb = sys.argv[1], sys.argv[2]
ids = sys.argv[3:] or ['C%02d' % i for i in range(1, 21)]
props = {json.loads(l)['id']: json.loads(l) for l in open('/verif/properties.jsonl')}
os.makedirs('/tmp/agents', exist_ok=True)
os.makedirs('/tmp/tools', exist_ok=True)
subprocess.run(['cp', '/verif/tools/baseline_check.py', '/tmp/tools/'])
head = subprocess.run(['git', '-C', '/repo', 'rev-parse', 'HEAD'], stdout=subprocess.PIPE, text=True).stdout.strip()
for pid in ids:
    wt = f'/tmp/wt-{pid}'
    if not os.path.isdir(wt):
        subprocess.run(['git', '-C', '/repo', 'worktree', 'add', '--detach', wt, head], stdout=subprocess.DEVNULL, stderr=subprocess.DEVNULL)
    for m in (ma, mb):
        os.makedirs(f'/tmp/out-{pid}/{m}', exist_ok=True)
    earlier = []
    for d in sorted(os.listdir('/verif/seeded')):
        if d.startswith(pid + '-'):
            try:
                s = json.load(open(f'/verif/seeded/{d}/meta.json')).get('summary', '')
            except Exception:
                s = ''
            if s:
                earlier.append('  - ' + s[:260].replace('\n', ' ') + ('...' if len(s) > 260 else ''))
    p = props[pid]
    text = f"""You are helping to evaluate a verification effort for the Rust project garnish-lang/garnish-core (a small scripting
language: lexer, precedence parser, bytecode builder, stack runtime, two data implementations SimpleGarnishData and
BasicGarnishData). Your job is to play the part of a maintainer who, in good faith, makes a change that turns out to
break one semantic property of the code base, in a way the existing test suite does not notice.

Your scratch git worktree of the repository is {wt} (detached at the current HEAD). Work ONLY there and in
/tmp/out-{pid}/. Never read or write /repo or /verif. There is no network; use `cargo ... --offline`
(CARGO_NET_OFFLINE=true). Put `timeout 900` in front of every cargo/test command: some inputs can make the pipeline
loop forever. NEVER use `git stash` (the stash is shared with other people's worktrees of this repository): to set a
change aside use `git diff > /tmp/out-{pid}/<name>.diff`, `git checkout -- .`, and later `git apply`.

THE PROPERTY (id {pid}: {p.get('title','')})

Statement: {p['statement']}

Quantified over: {p['quantifier']['text']}

Why the existing tests cannot settle it: {p['why_tests_cant']}

Where it lives: files {', '.join(p['anchors']['files'])}
Mechanisms: {'; '.join(m['name'] + ' (' + m['where'] + ')' for m in p['anchors']['mechanism'])}
Observed at: {'; '.join(p['anchors']['observe_at'])}

WHAT TO DELIVER: TWO independent changes to the repository, `{ma}` and `{mb}`, in different functions (preferably
different files or different crates), each of which

 1. compiles, and keeps the existing test suite passing: `python3 /tmp/tools/baseline_check.py {wt}` must print
    `stable_missing=0` (the suite has 1500 tests that pass on the clean tree and 39 that always fail; only the 1500
    count; it takes about a minute plus compile time);
 2. breaks the property above (not merely some other behaviour) for some inputs;
 3. looks like something a maintainer could plausibly commit: a refactoring, an optimisation, a 'simplification', a
    well-meant bug fix, an off-by-one, a forgotten case in new code - not sabotage, not a special case on a magic value;
 4. needs something SPECIFIC to manifest - a multi-step sequence of operations, an unusual but legitimate input (a
    particular nesting, length, value boundary, ordering, adjacency, a multi-byte character, a repeated construct), a
    particular state of the data object, or two cooperating edits that each look fine alone. A change that ordinary
    use (the typical one-line programs a user would try first) exposes at once is NOT wanted. Prefer changes whose
    smallest failing input is moderately large or unusual, and that leave all small/typical inputs unaffected;
 5. comes with a demonstration `demo.rs`: an integration test file for the `tests` crate (package garnish_lang_tests;
    it is copied to {wt}/tests/tests/<name>.rs and run with
    `timeout 900 cargo test -p garnish_lang_tests --test <name> --offline`) that PASSES on the clean tree and FAILS
    with your change applied. It must test the property (through the public API: garnish_lang::compiler::{{lex,parse,
    build}}, garnish_lang::simple::{{SimpleGarnishData, BasicGarnishData, ...}}, the runtime ops), not an internal detail.
    Look at existing files in {wt}/tests/tests/ for how programs are built and run.

Changes earlier rounds already produced for this property (yours must be DIFFERENT in mechanism and place):
{chr(10).join(earlier) if earlier else '  (none)'}

HOW TO HAND IN. For each of {ma}, {mb} write into /tmp/out-{pid}/<name>/ :
  patch.diff   `git diff` of the worktree against HEAD with ONLY the change (not the demo); must apply with `git apply`
               to a clean checkout of HEAD
  demo.rs      the demonstration
  meta.json    {{"property": "{pid}", "summary": "<what was changed and why it looks innocent>",
                "what_it_needs_to_manifest": "<the specific input / sequence / state needed, and what stays unaffected>",
                "files_changed": [...], "verified": {{"baseline_stable_missing": 0, "demo_fails_with_patch": true,
                "demo_passes_without_patch": true}}}}
Verify all three facts yourself before you write `verified`. Work on one change at a time: make it, run the baseline,
run the demo with and without it, save the files, then `git checkout -- . && git clean -fd -e target` before the next
one. Leave the worktree clean (no demo file, no patch applied) when you finish. If an idea turns out to be caught by
the existing suite, drop it and try another; do not edit or delete existing tests. Finish by replying with a short
plain-text summary of the two changes (or saying which one you could not produce).
"""
    open(f'/tmp/agents/prompt-{pid}.txt', 'w').write(text)
    print(pid, wt, len(earlier), 'earlier')
