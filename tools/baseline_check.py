#!/usr/bin/env python3
"""Run the repository's own test suite (hooks/feature guard OFF) and compare with BASELINE.json's stable_pass list.
Exit 0 iff every stable_pass test still passes."""
import json, re, subprocess, sys, os
base = json.load(open('/root/.vp/BASELINE.json'))
stable = set(base['stable_pass'])
env = dict(os.environ, CARGO_NET_OFFLINE='true')
repo = sys.argv[1] if len(sys.argv) > 1 else '/repo'
p = subprocess.run(['cargo', 'test', '--workspace', '--no-fail-fast', '--offline'], cwd=repo, env=env,
                   stdout=subprocess.PIPE, stderr=subprocess.STDOUT, text=True)
crate = None
passed = set(); failed = set()
for line in p.stdout.splitlines():
    m = re.search(r'Running (?:unittests )?(\S+) \(target/debug/deps/([A-Za-z0-9_]+?)-[0-9a-f]{16}\)', line)
    if m:
        src, binname = m.group(1), m.group(2)
        if src.startswith('tests/'):
            # integration test binary: <package>::<binary>::...
            crate = 'garnish_lang_tests::' + binname
        else:
            crate = binname
        continue
    m = re.match(r'test (\S+) \.\.\. (ok|FAILED|ignored)', line)
    if m and crate:
        name = crate + '::' + m.group(1)
        (passed if m.group(2) == 'ok' else failed).add(name)
missing = sorted(stable - passed)
print(f'passed={len(passed)} failed={len(failed)} stable_pass={len(stable)} stable_missing={len(missing)}')
for n in missing[:40]:
    print('  MISSING', n)
sys.exit(0 if not missing else 1)
