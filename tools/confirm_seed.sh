#!/bin/bash
# tools/confirm_seed.sh <ID> <mN>  — confirm a sub-agent's seeded change in the scratch worktree /tmp/wt-<ID>:
#   applies cleanly to current /repo HEAD, compiles, baseline stable_missing=0, demo fails with it and passes without it.
# On success copies it to /verif/seeded/<ID>-<mN>/ with a confirmation record.
ID="$1"; M="$2"; WT=/tmp/wt-$ID; OUT=/tmp/out-$ID/$M
HEAD=$(git -C /repo rev-parse HEAD)
cd $WT || exit 2
git checkout -q -- . ; git clean -qfd -e target; git checkout -q --detach $HEAD || exit 2
NAME=seed_$(echo ${ID}_${M} | tr 'A-Z' 'a-z')
res() { echo "$1"; }
if ! git apply --check $OUT/patch.diff 2>/dev/null; then echo "RESULT $ID $M: patch does not apply to $HEAD"; exit 3; fi
DEMO_DST=tests/tests/$NAME.rs
# unit-test style demos: meta.json may say where it goes; default integration test
cp $OUT/demo.rs $DEMO_DST
run_demo() { timeout 600 cargo test -p garnish_lang_tests --test $NAME --offline 2>&1 | tail -5; }
clean_out=$(run_demo); echo "$clean_out" | grep -q "test result: ok" ; clean_ok=$?
git apply $OUT/patch.diff
base=$(python3 /tmp/tools/baseline_check.py $WT 2>&1 | grep -v "seed_" | tail -3)
echo "$base" | grep -q "stable_missing=0"; base_ok=$?
mut_out=$(run_demo); echo "$mut_out" | grep -q "test result: FAILED\|panicked\|timed out\|error: test failed"; mut_fails=$?
git checkout -q -- . ; rm -f $DEMO_DST
echo "RESULT $ID $M: applies=yes demo_passes_clean=$([ $clean_ok = 0 ] && echo yes || echo NO) baseline_ok=$([ $base_ok = 0 ] && echo yes || echo NO) demo_fails_with_patch=$([ $mut_fails = 0 ] && echo yes || echo NO)"
if [ $clean_ok = 0 ] && [ $base_ok = 0 ] && [ $mut_fails = 0 ]; then
  D=/verif/seeded/$ID-$M; mkdir -p $D; cp $OUT/patch.diff $OUT/demo.rs $D/; cp $OUT/meta.json $D/agent_meta.json
  echo "confirmed at repo HEAD $HEAD: baseline [$base] demo clean [$(echo "$clean_out" | grep 'test result')] demo mutated [$(echo "$mut_out" | grep 'test result' | head -1)]" > $D/confirmation.txt
else
  echo "--- clean demo:"; echo "$clean_out"; echo "--- baseline:"; echo "$base"; echo "--- mutated demo:"; echo "$mut_out"
fi
