#!/usr/bin/env python3
"""Regenerate /verif/MANIFEST.json from the table below (keeps the manifest valid at all times)."""
import json, subprocess
ALL = ['C%02d' % i for i in range(1, 21)]
HOOK_COMMITS = ['53a9175']

# id -> (technique, level text, level note, design ref)
CLAIMED = {
 'C10': ('exhaustive truth matrix (value types x testing constructs) + bounded-exhaustive logic/conditional ASTs run under recording hosts, trace-differential against the reference evaluator',
         '32 values of every type (empty and non-empty) x 15 testing constructs x 2 implementations exhaustively: false exactly for unit and $!, booleans from && and ||; and every AST of at most 6 (quick) / 7 (thorough) nodes over three host-observable identifiers, $?, $! and ?> !> |> && || ^^ !! ??, under 4 scripted hosts: order and multiplicity of resolve calls and the value must equal the reference (right operands and arms evaluated only when selected, chain conditions in order).',
         'Reference evaluator for the expected trace; else chains without default are left to the C06 finding.', 'DESIGN.md §3 C10'),
 'C13': ('bounded-exhaustive string enumeration + proptest-generated fragment soups against a reference token table (round-trip, position recount, class validity, maximal munch, blank-line metamorphic)',
         'Every string up to length 4 (quick) / 5 (thorough, 1.3e8 strings) over a 42-character alphabet with one representative per lexical character class, every ordered pair of token spellings with three separators, and random fragment soups; each successful lex is judged for lossless round-trip, non-empty tokens, exact (line, column), membership of each token in its class per an independent token table, maximal munch, and stability of blank-line classification under added spaces/tabs.',
         'Trusts the reference token table in model/reflex.rs (a transcription of the language operator spellings and literal forms); CR/FF excluded from the position and whitespace clauses; Err results are never judged.', 'DESIGN.md §3 C13'),
 'C01': ('bounded-exhaustive AST enumeration + proptest-generated larger ASTs, differential against an independent reference evaluator over the reference parser tree',
         'Every core-language AST with at most 4 (quick) / 5 (thorough, 4.6e6) nodes over 10 leaves, 11 unary and 32 binary constructs, printed with minimal parentheses from the independent operator table, and random larger programs (conditional chains, applied nested expressions, counter-bounded reapply loops, side effects, sequencing) in spaced and tight layouts, run on both data implementations with several input values; the read-back of the final value must be structurally identical to the value of a tree-walking reference evaluator, and a well-formed program must not be rejected, fail or run away.',
         'As right as the reference evaluator (model/refeval.rs, calibrated on the 19 repository scripts in its scope, on which it agrees with both implementations); constructs whose meaning is unsettled or covered by an open finding are discarded, and counted in the evidence.', 'DESIGN.md §2, §3 C01'),
 'C02': ('bounded-exhaustive operator pairs/triples + proptest-generated deeper expressions, differential against an independent precedence-climbing parser, plus fully-parenthesised re-parse (metamorphic)',
         'Every ordered pair (x4 layout/atom variants) and triple (x2) of all 54 operators of an independent operator table, level-representative triples with one operand wrapped in ( ) or { }, level-representative quadruples (thorough) and random deeper expressions with groups; the parse tree must equal the tree a table-driven Pratt parser produces, and re-parsing the fully parenthesised print of the obtained tree must give the same tree modulo Group nodes.',
         'Trusts the operator table of DESIGN.md Appendix A (model/optable.rs) and the ~100-line reference parser; rejected inputs and lexical merges are counted, never judged.', 'DESIGN.md §3 C02'),
 'C03': ('bounded-exhaustive token-class sequences + proptest-generated token and character soups + scaling families; oracle: every stage returns (catch_unwind, watchdog, cycle pre-detection)',
         'Every sequence of up to 4 (quick) / 5 (thorough) token classes out of 30 (one per parser token class) x 3 separators, random token soups (to 400 tokens) and raw character soups (control characters, quotes, backslash, NUL, multi-byte), and 20 scaling families up to n=2048 / 16384; lex, parse and build into both data implementations must return Ok or Err without panic, abort, hang (5 s watchdog, 30 s for scaling) or a cyclic parse result.',
         'Termination is decided up to the watchdog budget; the polynomial-time clause only by absolute deadlines on fixed families (no proof).', 'DESIGN.md §3 C03'),
 'C04': ('bounded-exhaustive token-class sequences + proptest-generated soups and operator expressions; invariant oracle over the parse tree (links, single reachability, in-order = source order, token accounting) and the build metadata',
         'On every input of the C03 corpus (all sequences of up to 4/5 token classes x 3 separators, token soups) and on generated operator expressions that parse and build accept: parent/child links agree, no node is shared or on a cycle, the in-order walk is in strictly increasing source order, every significant token is carried by exactly one reachable node, non-redundant separators are kept, and every reachable value/operator node owns an instruction in the metadata.',
         'Redundant separators and structural nodes exempt from the metadata clause are defined in the check (model/treecheck.rs) and stated in the evidence; judged only when both parse and build accept.', 'DESIGN.md §3 C04'),
 'C05': ('bounded-exhaustive token-class sequences + proptest-generated programs, each built fresh and behind a decoy program on both data implementations; invariant oracle over the instruction stream read back through the data trait',
         'All inputs of the C03/C04 corpus that the pipeline accepts (all sequences of up to 4/5 token classes x 3 separators, operator triples, soups, random deeper expressions), each built 4 times (2 data implementations x fresh/after a decoy program); every Put/Resolve operand, jump operand, Expression value and jump-table entry must name something that exists inside the ranges this build created, every body must be preceded by a terminator, the stream must end in one, and metadata must be one valid record per instruction.',
         'Body entries vs join points are derived from the instructions themselves (targets of conditional/logical jumps, Expression values, root); cyclic parse results are left to C03/C04.', 'DESIGN.md §3 C05'),
 'C06': ('abstract interpretation of operand depth over all paths of every accepted program + per-step dynamic effect checking with a shadow call stack on both data implementations; reapply loops at several iteration counts',
         'For every accepted program of the corpus (bare `;;` excluded): static analysis assigns one operand depth per instruction over all paths (never negative, 1 at EndExpression, bodies entered at 0); the program is then stepped on SimpleGarnishData and BasicGarnishData and after every instruction the change in pending operands must equal that instruction abstract effect, EndExpression must see exactly one pending operand in its frame, and at the end operand stack, input-value stack and frames are back at their initial depths; 8 reapply-loop programs x 6 iteration counts must run in depth independent of the count.',
         'Abstract effects per instruction are DESIGN.md Appendix B; runs that stop with a non-underflow runtime error give no verdict; five recorded constructs (empty program, empty group, misplaced side effect, else chain without default, reapply under an operator) are keyed and excluded as known findings.', 'DESIGN.md §3 C06'),
 'C17': ('bounded-exhaustive ASTs with identifiers and externals at every operand position + random programs, run under scripted recording hosts; call-trace differential against the reference evaluator',
         'Every AST of at most 5 (quick) / 6 (thorough) nodes over identifiers bound by the input, bound to externals, or unknown, with apply / apply-to / empty-apply / conditionals / logic / pair / list / sequencing, under 4 hosts (resolve none/some/all, answer externals 7 / 7 and 8 / none) on both implementations, plus random larger programs: the recorded resolve(symbol) and apply(external, argument) calls must equal the reference events in order and multiplicity and the value must match (declined => unit, accepted => the host value).',
         'Reference evaluator for expected events; SimpleGarnishData has no external-apply hook (externals yield unit there without a call).', 'DESIGN.md §3 C17'),
 'C18': ('metamorphic: every single layout rewrite at every position of bounded-exhaustive small programs, random subsets on random programs; parse tree modulo trivia and values on both implementations must not change',
         'All core ASTs of at most 3 (quick) / 4 (thorough) nodes and random larger ones; each gap between tokens rewritten to none / one / many spaces / tab / line break / annotation / comment line, leading and trailing trivia, parentheses around each operand, a constant side-effect block after each value; a rewrite counts only if the lexer still yields the same significant tokens; the tree modulo Group / side-effect nodes and the final values (2 implementations x 2 inputs) must be unchanged.',
         'Rewrites that are not meaning-preserving by the language rules (property names, same-kind list items, else-chain arms, separators in parentheses) are excluded by construction.', 'DESIGN.md §3 C18'),
 'C07': ('bounded-exhaustive operator x boundary-value matrix, deep-data families, token-class sequences and proptest-generated programs, all executed under catch_unwind in watchdog-guarded workers',
         'Every binary operator spelling applied to every ordered pair of 91 operand values (all types and shapes plus i32 limits, huge / subnormal / infinite floats, shift counts, empty and multi-byte text and bytes, reversed / negative / fractional / huge ranges and slices), every prefix/suffix operator on each, data nested up to depth 400, all accepted token-class sequences, token soups, random operator expressions and random core ASTs with boundary literals; each executed on both data implementations with and without host callbacks for up to 3000 steps and read back: no unwinding, no abort.',
         'Harness built with debug assertions and overflow checks; an Err result is never a violation.', 'DESIGN.md §3 C07'),
 'C08': ('exhaustive finite matrix: instruction x operand values of every type x data implementation x host mode, instructions called directly above sentinel registers under recording hosts',
         '19 binary instructions x 32x32 representative values of all 20 value types and 7 unary instructions x 32 values, on both implementations with a declining and an accepting deferred-operation callback, plus an identifier look-up against every input type: outside the table of defined combinations the call returns Ok, the callback sees exactly one call with this instruction and both operands (type and address) in order, declining leaves exactly one unit register, accepting exactly the callback value, sentinels intact.',
         'DEFINED(op) is DESIGN.md Appendix C; casts are judged only towards composite/callable targets.', 'DESIGN.md §3 C08, Appendix C'),
 'C11': ('exhaustive pairs of a 48-value pool + proptest-generated value trees with twins and near-miss mutants; model = structural identity of canonical forms; laws (symmetry, negation, transitivity via twins) and sentinel registers',
         'Every ordered pair of 48 small values and random trees (depth <= 3) paired with a differently-built equal twin, a near-miss mutant or an independent tree, compared in both orders with Equal and NotEqual called directly and through a compiled program on both implementations: the answer equals structural identity of canonical forms (int/float numerically, char = 1-char text, byte = 1-byte list, lists and concatenations as flat sequences), is symmetric, != is the negation, exactly one register is left above intact sentinels.',
         'Finite floats only; ranges, slices, partials, externals, expression values are outside the statement value list.', 'DESIGN.md §3 C11'),
 'C12': ('exhaustive pairs over the numeric boundary lattice, all short strings / byte lists and all cross-type pairs + random longer strings; natural-order model and order laws on the observed answers',
         'All ordered pairs of 260 numbers (C09 lattice, float pool, int/float neighbours), of all char lists and byte lists of length <= 3 (incl. empty and proper prefixes), of chars and bytes, and of 35 values of every type incl. NaN and infinities, with the four comparison instructions called directly in both orders on both implementations: agreement with the natural order, a<b iff b>a, <= is not >, >= is not <, non-comparable combinations false on all four, NaN gives unit, one result register.',
         'Slices are outside the statement operand list.', 'DESIGN.md §3 C12'),
 'C14': ('round trip through my own literal printers: bounded-exhaustive integers x radixes, all short strings / byte vectors in every quote form, symbols, plus proptest-generated numbers, floats, strings, bytes',
         'Boundary i32 values in decimal and every radix 2..36, every string of length <= 3 over 9 characters (ASCII, quote, backslash, LF, TAB, 2-/3-/4-byte characters) in 1-/3-/4-quote forms raw and escaped, every byte vector of length <= 2 over 9 bytes in quoted and numeric forms, ASCII and non-ASCII symbol names, and random values with random separators / digit case / quote forms: the one-literal program evaluated on both implementations reads back exactly the spelled value, and the symbol table returns the written name.',
         'Spelling rules of docs/src/escape_sequences.md and DESIGN.md; exponent forms, negative numbers, NaN, infinities have no literal spelling and are not judged.', 'DESIGN.md §3 C14'),
 'C15': ('bounded-exhaustive operation histories x growth configurations against an abstract model of independent growable tables, checked after every operation; proptest-generated long histories; interning clause for SimpleGarnishData',
         'Every history of up to 5 (quick) / 6 (thorough) of 14 store operations on BasicGarnishData for 8 growth configurations (initial size 0/1/2 x +1/+2/x2) plus all histories one longer for the two tightest configurations, and random histories of 50-400 operations on both implementations (default and random per-table settings): after every operation every address ever returned, every instruction, jump entry, register, the current value and every symbol name reads back as in the model; equal constants share an address in SimpleGarnishData, different ones do not.',
         'Generator preconditions of DESIGN.md §5a (list protocol, no pop below a frame base, growth policies that make progress); needs hook 1 (StorageSettings re-export).', 'DESIGN.md §3 C15'),
 'C16': ('bounded-exhaustive small lists over 6 item kinds + proptest-generated large lists with adversarial 64-bit keys and concatenations, against a plain Vec model, through the data interface and through Access/Apply',
         'Every list of length <= 4 over {number, text, symbol, symbol-keyed pair, number-keyed pair, nested list} and random lists of up to 64 items / concatenations of 2-3 lists with adversarial raw symbol keys (equal modulo the length, 0, u64::MAX, ascending, descending, interleaved extremes), on both implementations: length, every index, no item past the end, insertion order, value of every present key, absent for absent keys (never an error), and the same answers from the Access and Apply instructions incl. negative and past-the-end indexes.',
         'Distinct symbol keys per container.', 'DESIGN.md §3 C16'),
 'C19': ('proptest-generated value graphs with sharing, stacks, frames, retention boundaries and root sets, read-back snapshot before/after optimize (twice); differential runs with optimize injected before every step; clone_data read-back',
         'Random graphs of 3-30 nodes on BasicGarnishData with values on the operand stack, the input-value stack and under frames, retention at random object boundaries, extra roots (also already reachable / retained / fresh clones): everything reachable reads back identically after optimize and after a second optimize; 35 pool programs and random programs produce the same value with optimize injected before each of their first 80 steps as uninterrupted; clone_data reads back equal and leaves every original intact.',
         'Preconditions of DESIGN.md §5a (object boundaries, complete values, constants retained after build).', 'DESIGN.md §3 C19'),
 'C20': ('exhaustive ordered pairs of a 35-program pool with/without interleaved execution + proptest-generated sequences of 2-5 programs; snapshot invariants after every build and differential alone-vs-shared execution',
         'Every ordered pair of 35 pool programs and random sequences of 2-5 programs (pool and random ASTs) built into one SimpleGarnishData and one BasicGarnishData with tape-chosen complete executions between builds: earlier programs instructions, jump entries and constants are unchanged after every later build, every operand of a new program lies inside the ranges its build created, and each program run from its reported entry (between builds and at the end) yields the value it yields when built alone.',
         'Programs that fail when built alone (the empty program, recorded under C06) have no baseline and are not compared.', 'DESIGN.md §3 C20'),
 'C09': ('bounded-exhaustive enumeration + proptest-generated operand tapes against an i128 / IEEE-754 reference',
         'Every ordered pair of the 187-value boundary lattice x 12 binary operators and lattice+float pool x 5 unary operators exhaustively, a 62x62 float/mixed matrix, plus millions of random i32/f64 pairs; each compared on the GarnishNumber methods and on the executed instruction for both data implementations with a wide-integer/IEEE reference. Exhaustive on the stated lattice, sampled beyond it.',
         'Trusts the i128/f64 reference in checks/c09.rs and the platform powf; operands are finite.', 'DESIGN.md §3 C09'),
}
FUZZ_TAPE = {'C01','C02','C03','C04','C05','C06','C07','C09','C11','C12','C13','C14','C15','C16','C17','C18','C19','C20'}
FUZZ_TEXT = {'C02','C03','C04','C05','C06','C07','C13','C19'}
# phases added after the seeded-change rounds (DESIGN.md §6.5)
EXTRA_LEVEL = {
 'C01': ' Also: every control-flow skeleton of at most 8 (9) nodes over constant conditions, `!!`, `??`, conditionals, else chains, `&&`, `||`, `+` and explicit parentheses; every binary/unary operator on every ordered pair of a 52-value pool, read by the reference parser from the text.',
 'C03': ' Also: every string of up to 7 (8) tokens over values, both separators and every bracket kind (statement blocks).',
 'C04': ' Also: every string of up to 7 (8) tokens over values, both separators and every bracket kind (statement blocks).',
 'C05': ' Also: every string of up to 7 (8) tokens over values, both separators and every bracket kind (statement blocks).',
 'C06': ' Also: every string of up to 7 (8) tokens over values, both separators and every bracket kind (statement blocks).',
 'C07': ' The boundary pool includes non-ASCII text inside lists, pairs, concatenations, slices and symbol names.',
 'C10': ' Also: 40 operand forms written out in the source (literals, comparisons, nested expressions whose body is a test, applied expressions, conditionals) in place of the tested value of every construct.',
 'C14': ' Also: every ordered pair of 36 literal spellings of all kinds and quote forms as a two-item list (state left behind by one literal must not change the next).',
 'C15': ' Also: every ordered pair of a pool of ~100 constants of every interned kind (same value as integer/float/char/byte/symbol, texts and byte lists of lengths around 8..256 differing in one item) added A, B, A, B to both implementations.',
 'C18': ' Annotations are also glued to either neighbour and placed inside list-space and blank-line gaps; the evidence lists, per rewrite kind, in how many programs it was applicable and judged.',
}
NOT_YET = 'check not built yet in this round (planned: DESIGN.md §3); no claim is made'

def main():
    checks = []
    for pid in ALL:
        if pid not in CLAIMED: continue
        tech, text, note, ref = CLAIMED[pid]
        text = text + EXTRA_LEVEL.get(pid, '')
        if pid in FUZZ_TAPE:
            tech += '; thorough tier adds a coverage-guided libFuzzer stage (cargo-fuzz) that feeds the same tape-decoded generators' + (' and the text-mode oracle' if pid in FUZZ_TEXT else '') + ', every saved input re-judged by the ordinary replay path'
        checks.append({
            'property_id': pid,
            'quick_cmd': f'bin/check {pid} quick',
            'thorough_cmd': f'bin/check {pid} thorough',
            'evidence_file': f'/verif/evidence/{pid}.json',
            'replay_cmd_template': f'bin/check {pid} --replay {{path}}',
            'engine': 'gv',
            'level_claimed': {'category': 'exploration', 'text': text, 'design_ref': ref},
            'level_note': note,
            'technique': tech,
        })
    m = {
        'version': 1,
        'setup_cmd': 'cd /verif/harness && CARGO_NET_OFFLINE=true cargo build --release --offline',
        'hooks': {
            'guard': 'cargo feature verif-hooks (crate garnish_lang_simple_data)',
            'enable': 'the harness crate /verif/harness depends on /repo/data with features=["verif-hooks"] (harness feature `hooks`, on by default); nothing else in /repo sees the feature',
            'baseline_off_cmd': 'python3 /verif/tools/baseline_check.py',
            'source_commits': HOOK_COMMITS,
            'add_only': True,
        },
        'engines': [
            {'name': 'gv', 'path': '/verif/harness', 'serves_properties': sorted(CLAIMED),
             'kind_free_text': 'Rust harness: tape-decoder generators driven by proptest (random tapes + shrinking) and hand-written bounded-exhaustive enumerators; cases run in watchdog-guarded, memory-capped worker subprocesses; explicit oracles per property'},
            {'name': 'gv-fuzz', 'path': '/verif/fuzz', 'serves_properties': sorted(FUZZ_TAPE),
             'kind_free_text': 'cargo-fuzz / libFuzzer targets `tape` (bytes = choice tape of a check\'s random phase) and `text` (bytes = source text for a check\'s text oracle), run by tools/fuzz_stage.py in the thorough tier; oracles live in the harness crate (engine/fuzzrt.rs); verdicts only through `gv replay` of saved inputs'},
        ],
        'checks': checks,
        'not_applicable': [{'property_id': p, 'reason': NOT_YET} for p in ALL if p not in CLAIMED],
        'notes': 'bin/check rebuilds the harness (path dependencies on /repo, so the current working tree is compiled) and runs one check; exit 0 held / 1 VIOLATION / 2 inconclusive. The thorough tier runs the proptest/enumeration stage and then the coverage-guided stage (GV_FUZZ_SECONDS per mode, default 180; GV_FUZZ=0 skips it). known_findings.json lists open and fixed genuine defects.',
    }
    json.dump(m, open('/verif/MANIFEST.json', 'w'), indent=1)
    print('claimed', sorted(CLAIMED), 'not claimed', len(m['not_applicable']))

main()
