#!/usr/bin/env python3
"""Regenerate /verif/MANIFEST.json from the table below (keeps the manifest valid at all times)."""
import json, subprocess
ALL = ['C%02d' % i for i in range(1, 21)]
HOOK_COMMITS = ['53a9175']

# id -> (technique, level text, level note, design ref)
CLAIMED = {
 'C10': ('exhaustive truth matrix (value types x testing constructs) + bounded-exhaustive logic/conditional ASTs run under recording hosts, trace-differential against the reference evaluator',
         '32 values of every type (empty and non-empty) x 15 testing constructs x 2 implementations exhaustively: false exactly for unit and $!, booleans from && and ||; and every AST of at most 6 (quick) / 7 (thorough) nodes over three host-observable identifiers, $?, $! and ?> !> |> && || ^^ !! ??, under 4 scripted hosts: order and multiplicity of resolve calls and the value must equal the reference (right operands and arms evaluated only when selected, chain conditions in order).',
         'Reference evaluator for the expected trace; else chains without default are left to the C06 finding.', 'DESIGN.md §3 C10'),
 'C13': ('bounded-exhaustive string enumeration + proptest-generated fragment soups against a reference token table (round-trip, position recount, class validity, maximal munch, blank-line metamorphic)',
         'Every string up to length 4 (quick) / 5 (thorough, 1.3e8 strings) over a 42-character alphabet with one representative per lexical character class, every ordered pair of token spellings with three separators, and random fragment soups; each successful lex is judged for lossless round-trip, non-empty tokens, exact (line, column), membership of each token in its class per an independent token table, maximal munch, and stability of blank-line classification under added spaces/tabs.',
         'Trusts the reference token table in model/reflex.rs (a transcription of the language operator spellings and literal forms); CR/FF excluded from the position and whitespace clauses; Err results are never judged.', 'DESIGN.md §3 C13'),
 'C01': ('bounded-exhaustive AST enumeration + proptest-generated larger ASTs, differential against an independent reference evaluator over the reference parser tree',
         'Every core-language AST with at most 4 (quick) / 5 (thorough, 4.6e6) nodes over 10 leaves, 11 unary and 32 binary constructs, printed with minimal parentheses from the independent operator table, and random larger programs (conditional chains, applied nested expressions, counter-bounded reapply loops, side effects, sequencing) in spaced and tight layouts, run on both data implementations with several input values; the read-back of the final value must be structurally identical to the value of a tree-walking reference evaluator, and a well-formed program must not be rejected, fail or run away.',
         'As right as the reference evaluator (model/refeval.rs, calibrated on the 19 repository scripts in its scope, on which it agrees with both implementations); constructs whose meaning is unsettled or covered by an open finding are discarded, and counted in the evidence.', 'DESIGN.md §2, §3 C01'),
 'C02': ('bounded-exhaustive operator pairs/triples + proptest-generated deeper expressions, differential against an independent precedence-climbing parser, plus fully-parenthesised re-parse (metamorphic)',
         'Every ordered pair (x4 layout/atom variants) and triple (x2) of all 54 operators of an independent operator table, level-representative triples with one operand wrapped in ( ) or { }, level-representative quadruples (thorough) and random deeper expressions with groups; the parse tree must equal the tree a table-driven Pratt parser produces, and re-parsing the fully parenthesised print of the obtained tree must give the same tree modulo Group nodes.',
         'Trusts the operator table of DESIGN.md Appendix A (model/optable.rs) and the ~100-line reference parser; rejected inputs and lexical merges are counted, never judged.', 'DESIGN.md §3 C02'),
 'C03': ('bounded-exhaustive token-class sequences + proptest-generated token and character soups + scaling families; oracle: every stage returns (catch_unwind, watchdog, cycle pre-detection)',
         'Every sequence of up to 4 (quick) / 5 (thorough) token classes out of 30 (one per parser token class) x 3 separators, random token soups (to 400 tokens) and raw character soups (control characters, quotes, backslash, NUL, multi-byte), and 20 scaling families up to n=2048 / 16384; lex, parse and build into both data implementations must return Ok or Err without panic, abort, hang (5 s watchdog, 30 s for scaling) or a cyclic parse result.',
         'Termination is decided up to the watchdog budget; the polynomial-time clause only by absolute deadlines on fixed families (no proof).', 'DESIGN.md §3 C03'),
 'C04': ('bounded-exhaustive token-class sequences + proptest-generated soups and operator expressions; invariant oracle over the parse tree (links, single reachability, in-order = source order, token accounting) and the build metadata',
         'On every input of the C03 corpus (all sequences of up to 4/5 token classes x 3 separators, token soups) and on generated operator expressions that parse and build accept: parent/child links agree, no node is shared or on a cycle, the in-order walk is in strictly increasing source order, every significant token is carried by exactly one reachable node, non-redundant separators are kept, and every reachable value/operator node owns an instruction in the metadata.',
         'Redundant separators and structural nodes exempt from the metadata clause are defined in the check (model/treecheck.rs) and stated in the evidence; judged only when both parse and build accept.', 'DESIGN.md §3 C04'),
 'C05': ('bounded-exhaustive token-class sequences + proptest-generated programs, each built fresh and behind a decoy program on both data implementations; invariant oracle over the instruction stream read back through the data trait',
         'All inputs of the C03/C04 corpus that the pipeline accepts (all sequences of up to 4/5 token classes x 3 separators, operator triples, soups, random deeper expressions), each built 4 times (2 data implementations x fresh/after a decoy program); every Put/Resolve operand, jump operand, Expression value and jump-table entry must name something that exists inside the ranges this build created, every body must be preceded by a terminator, the stream must end in one, and metadata must be one valid record per instruction.',
         'Body entries vs join points are derived from the instructions themselves (targets of conditional/logical jumps, Expression values, root); cyclic parse results are left to C03/C04.', 'DESIGN.md §3 C05'),
 'C06': ('abstract interpretation of operand depth over all paths of every accepted program + per-step dynamic effect checking with a shadow call stack on both data implementations; reapply loops at several iteration counts',
         'For every accepted program of the corpus (bare `;;` excluded): static analysis assigns one operand depth per instruction over all paths (never negative, 1 at EndExpression, bodies entered at 0); the program is then stepped on SimpleGarnishData and BasicGarnishData and after every instruction the change in pending operands must equal that instruction abstract effect, EndExpression must see exactly one pending operand in its frame, and at the end operand stack, input-value stack and frames are back at their initial depths; 8 reapply-loop programs x 6 iteration counts must run in depth independent of the count.',
         'Abstract effects per instruction are DESIGN.md Appendix B; runs that stop with a non-underflow runtime error give no verdict; five recorded constructs (empty program, empty group, misplaced side effect, else chain without default, reapply under an operator) are keyed and excluded as known findings.', 'DESIGN.md §3 C06'),
 'C17': ('bounded-exhaustive ASTs with identifiers and externals at every operand position + random programs, run under scripted recording hosts; call-trace differential against the reference evaluator',
         'Every AST of at most 5 (quick) / 6 (thorough) nodes over identifiers bound by the input, bound to externals, or unknown, with apply / apply-to / empty-apply / conditionals / logic / pair / list / sequencing, under 4 hosts (resolve none/some/all, answer externals 7 / 7 and 8 / none) on both implementations, plus random larger programs: the recorded resolve(symbol) and apply(external, argument) calls must equal the reference events in order and multiplicity and the value must match (declined => unit, accepted => the host value).',
         'Reference evaluator for expected events; SimpleGarnishData has no external-apply hook (externals yield unit there without a call).', 'DESIGN.md §3 C17'),
 'C18': ('metamorphic: every single layout rewrite at every position of bounded-exhaustive small programs, random subsets on random programs; parse tree modulo trivia and values on both implementations must not change',
         'All core ASTs of at most 3 (quick) / 4 (thorough) nodes and random larger ones; each gap between tokens rewritten to none / one / many spaces / tab / line break / annotation / comment line, leading and trailing trivia, parentheses around each operand, a constant side-effect block after each value; a rewrite counts only if the lexer still yields the same significant tokens; the tree modulo Group / side-effect nodes and the final values (2 implementations x 2 inputs) must be unchanged.',
         'Rewrites that are not meaning-preserving by the language rules (property names, same-kind list items, else-chain arms, separators in parentheses) are excluded by construction.', 'DESIGN.md §3 C18'),
 'C09': ('bounded-exhaustive enumeration + proptest-generated operand tapes against an i128 / IEEE-754 reference',
         'Every ordered pair of the 187-value boundary lattice x 12 binary operators and lattice+float pool x 5 unary operators exhaustively, a 62x62 float/mixed matrix, plus millions of random i32/f64 pairs; each compared on the GarnishNumber methods and on the executed instruction for both data implementations with a wide-integer/IEEE reference. Exhaustive on the stated lattice, sampled beyond it.',
         'Trusts the i128/f64 reference in checks/c09.rs and the platform powf; operands are finite.', 'DESIGN.md §3 C09'),
}
NOT_YET = 'check not built yet in this round (planned: DESIGN.md §3); no claim is made'

def main():
    checks = []
    for pid in ALL:
        if pid not in CLAIMED: continue
        tech, text, note, ref = CLAIMED[pid]
        checks.append({
            'property_id': pid,
            'quick_cmd': f'bin/check {pid} quick',
            'thorough_cmd': f'bin/check {pid} thorough',
            'evidence_file': f'/verif/evidence/{pid}.json',
            'replay_cmd_template': f'bin/check {pid} --replay {{path}}',
            'engine': 'gv',
            'level_claimed': {'category': 'exploration', 'text': text, 'design_ref': ref},
            'level_note': note,
            'technique': tech,
        })
    m = {
        'version': 1,
        'setup_cmd': 'cd /verif/harness && CARGO_NET_OFFLINE=true cargo build --release --offline',
        'hooks': {
            'guard': 'cargo feature verif-hooks (crate garnish_lang_simple_data)',
            'enable': 'the harness crate /verif/harness depends on /repo/data with features=["verif-hooks"] (harness feature `hooks`, on by default); nothing else in /repo sees the feature',
            'baseline_off_cmd': 'python3 /verif/tools/baseline_check.py',
            'source_commits': HOOK_COMMITS,
            'add_only': True,
        },
        'engines': [
            {'name': 'gv', 'path': '/verif/harness', 'serves_properties': sorted(CLAIMED),
             'kind_free_text': 'Rust harness: tape-decoder generators driven by proptest (random tapes + shrinking) and hand-written bounded-exhaustive enumerators; cases run in watchdog-guarded, memory-capped worker subprocesses; explicit oracles per property'},
        ],
        'checks': checks,
        'not_applicable': [{'property_id': p, 'reason': NOT_YET} for p in ALL if p not in CLAIMED],
        'notes': 'bin/check rebuilds the harness (path dependencies on /repo, so the current working tree is compiled) and runs one check; exit 0 held / 1 VIOLATION / 2 inconclusive. known_findings.json lists open and fixed genuine defects.',
    }
    json.dump(m, open('/verif/MANIFEST.json', 'w'), indent=1)
    print('claimed', sorted(CLAIMED), 'not claimed', len(m['not_applicable']))

main()
