#!/usr/bin/env python3
"""tools/record_seed.py <ID> <mN> <caught-by: C02,C04|none> "<what the checks reported>" — write /verif/seeded/<ID>-<mN>/meta.json"""
import json, sys, os
pid, m, caught, note = sys.argv[1], sys.argv[2], sys.argv[3], sys.argv[4]
d = f'/verif/seeded/{pid}-{m}'
a = json.load(open(f'{d}/agent_meta.json')) if os.path.exists(f'{d}/agent_meta.json') else {}
conf = open(f'{d}/confirmation.txt').read().strip() if os.path.exists(f'{d}/confirmation.txt') else ''
old = json.load(open(f'{d}/meta.json')) if os.path.exists(f'{d}/meta.json') else {}
meta = {
  'property': (a.get('property') or pid)[:3] if pid.startswith('F') else pid,
  'summary': a.get('summary', ''),
  'what_it_needs_to_manifest': a.get('what_it_needs_to_manifest', ''),
  'files_changed': a.get('files_changed', []),
  'demo': 'demo.rs (integration test for the garnish_lang_tests crate: copy to tests/tests/<name>.rs, cargo test -p garnish_lang_tests --test <name> --offline)',
  'what_i_ran': [
     'tools/confirm_seed.sh %s %s  (scratch worktree /tmp/wt-%s at current /repo HEAD: patch applies, baseline stable_missing=0, demo passes clean, demo fails with patch)' % (pid, m, pid),
     'tools/try_mutation.sh seeded/%s-%s/patch.diff <checks>  (git -C /repo apply; bin/check <ID> quick; git -C /repo checkout -- .)' % (pid, m),
  ],
  'confirmation': conf,
  'caught_by_quick_checks': [] if caught == 'none' else caught.split(','),
  'check_report': note,
}
# the note written when the change was first tried (may say 'missed at first ...') is kept
first = old.get('first_report') or old.get('check_report')
if first and first != note:
    meta['first_report'] = first
json.dump(meta, open(f'{d}/meta.json', 'w'), indent=1)
print('recorded', d)
