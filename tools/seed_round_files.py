#!/usr/bin/env python3
"""tools/seed_round_files.py — prepare a FILE-focused round of seeded changes: each sub-agent gets a group of source files and
the statements of all 20 properties, and is asked for two changes inside its files that each break one property of its choice.
Creates a scratch worktree /tmp/wt-Fnn per group, /tmp/out-Fnn/{a,b}, and the prompt /tmp/agents/prompt-Fnn.txt.
Nothing about the checks in /verif goes into the prompt."""
import json, os, subprocess, sys
GROUPS = [
    ['compiler/src/parse/parser.rs'],
    ['compiler/src/build/build.rs', 'compiler/src/build/mod.rs'],
    ['compiler/src/lex/lexer.rs'],
    ['data/src/runtime.rs'],
    ['data/src/basic/garnish/garnish_impl.rs'],
    ['data/src/simple.rs', 'data/src/clone.rs', 'traits/src/helpers/clone.rs'],
    ['traits/src/data.rs', 'traits/src/helpers/concatenation.rs'],
    ['data/src/basic/data.rs', 'data/src/basic/object/mod.rs', 'data/src/basic/garnish/factory.rs'],
    ['data/src/basic/basic.rs', 'data/src/basic/storage.rs', 'data/src/basic/internal.rs'],
    ['runtime/src/runtime/equality.rs', 'runtime/src/runtime/comparison.rs'],
    ['data/src/data/number.rs', 'data/src/data/parsing.rs'],
    ['data/src/data/mod.rs', 'data/src/data/iterators.rs', 'data/src/data/display.rs'],
    ['data/src/basic/garnish/conversions/string.rs', 'data/src/basic/garnish/conversions/bytes.rs', 'data/src/basic/garnish/conversions/number.rs'],
    ['runtime/src/runtime/list.rs', 'runtime/src/runtime/access.rs', 'runtime/src/runtime/internals.rs'],
    ['data/src/basic/clone.rs', 'data/src/basic/ordering.rs', 'data/src/basic/optimize.rs'],
    ['runtime/src/runtime/casting.rs', 'runtime/src/runtime/range.rs', 'runtime/src/runtime/arithmetic.rs', 'runtime/src/runtime/bitwise.rs'],
    ['runtime/src/runtime/apply.rs', 'runtime/src/runtime/jumps.rs', 'runtime/src/runtime/sideeffect.rs', 'runtime/src/runtime/put.rs', 'runtime/src/runtime/resolve.rs', 'runtime/src/runtime/logical.rs'],
    ['runtime/src/execute.rs', 'runtime/src/runtime/utilities.rs', 'runtime/src/runtime/concat.rs', 'runtime/src/runtime/pair.rs'],
    ['data/src/basic/merge_to_symbol_list.rs', 'data/src/basic/search.rs', 'data/src/basic/companion.rs'],
    ['compiler/src/parse/parser.rs', 'compiler/src/lex/lexer.rs'],
]
props = [json.loads(l) for l in open('/verif/properties.jsonl')]
head = subprocess.run(['git', '-C', '/repo', 'rev-parse', 'HEAD'], stdout=subprocess.PIPE, text=True).stdout.strip()
os.makedirs('/tmp/agents', exist_ok=True)
os.makedirs('/tmp/tools', exist_ok=True)
subprocess.run(['cp', '/verif/tools/baseline_check.py', '/tmp/tools/'])
only = sys.argv[1:]
for i, files in enumerate(GROUPS, 1):
    gid = 'F%02d' % i
    if only and gid not in only:
        continue
    files = [f for f in files if os.path.exists('/repo/' + f)]
    wt = f'/tmp/wt-{gid}'
    if not os.path.isdir(wt):
        subprocess.run(['git', '-C', '/repo', 'worktree', 'add', '--detach', wt, head], stdout=subprocess.DEVNULL, stderr=subprocess.DEVNULL)
    else:
        subprocess.run(f'cd {wt} && git checkout -q -- . && git clean -qfd -e target && git checkout -q --detach {head}', shell=True)
    for m in ('a', 'b'):
        os.makedirs(f'/tmp/out-{gid}/{m}', exist_ok=True)
    plist = '\n'.join(f"  {p['id']} ({p['title']}): {p['statement']}" for p in props)
    text = f"""You are helping to evaluate a verification effort for the Rust project garnish-lang/garnish-core (a small scripting
language: lexer, precedence parser, bytecode builder, stack runtime, two data implementations SimpleGarnishData and
BasicGarnishData). Your job is to play the part of a maintainer who, in good faith, makes a change that turns out to
break a semantic property of the code base, in a way the existing test suite does not notice.

Your scratch git worktree of the repository is {wt} (detached at the current HEAD). Work ONLY there and in
/tmp/out-{gid}/. Never read or write /repo or /verif. There is no network; use `cargo ... --offline`
(CARGO_NET_OFFLINE=true). Put `timeout 900` in front of every cargo/test command: some inputs can make the pipeline
loop forever. NEVER use `git stash` (the stash is shared with other people's worktrees of this repository): to set a
change aside use `git diff > /tmp/out-{gid}/<name>.diff`, `git checkout -- .`, and later `git apply`.

YOUR FILES. Both of your changes must be made in this group of source files (the non-test part):
{chr(10).join('  ' + f for f in files)}
Read them carefully first, and read their callers as far as you need to understand what depends on them.

THE PROPERTIES users of this code base rely on (each must hold for every input, not only the tested ones):
{plist}

WHAT TO DELIVER: TWO independent changes, `a` and `b`, in different functions of your files, each of which
 1. compiles, and keeps the existing test suite passing: `python3 /tmp/tools/baseline_check.py {wt}` must print
    `stable_missing=0` (the suite has 1500 tests that pass on the clean tree and 39 that always fail; only the 1500
    count; it takes about a minute plus compile time);
 2. breaks ONE of the properties above (you choose which; say so in meta.json) for some inputs - really that property as it
    is stated, not merely some other behaviour;
 3. looks like something a maintainer could plausibly commit: a refactoring, an optimisation, a 'simplification', a
    well-meant bug fix, an off-by-one, a forgotten case in new code - not sabotage, not a special case on a magic value;
 4. needs something SPECIFIC to manifest - a multi-step sequence of operations, an unusual but legitimate input (a
    particular nesting, length, value boundary, ordering, adjacency, a multi-byte character, a repeated construct), a
    particular state of the data object, or two cooperating edits that each look fine alone. A change that ordinary use
    (the typical one-line programs a user would try first) exposes at once is NOT wanted;
 5. comes with a demonstration `demo.rs`: an integration test file for the `tests` crate (package garnish_lang_tests;
    it is copied to {wt}/tests/tests/<name>.rs and run with
    `timeout 900 cargo test -p garnish_lang_tests --test <name> --offline`) that PASSES on the clean tree and FAILS
    with your change applied. It must test the chosen property through the public API (garnish_lang::compiler::{{lex,
    parse,build}}, garnish_lang::simple::{{SimpleGarnishData, BasicGarnishData, ...}}, the runtime ops), not an internal
    detail. Look at existing files in {wt}/tests/tests/ for how programs are built and run.
Prefer parts of your files that look little exercised by the existing tests, and prefer the less obvious properties.

HOW TO HAND IN. For each of a, b write into /tmp/out-{gid}/<name>/ :
  patch.diff   `git diff` of the worktree against HEAD with ONLY the change (not the demo); must apply with `git apply`
               to a clean checkout of HEAD
  demo.rs      the demonstration
  meta.json    {{"property": "<Cnn, the property it breaks>", "summary": "<what was changed and why it looks innocent>",
                "what_it_needs_to_manifest": "<the specific input / sequence / state needed, and what stays unaffected>",
                "files_changed": [...], "verified": {{"baseline_stable_missing": 0, "demo_fails_with_patch": true,
                "demo_passes_without_patch": true}}}}
Verify all three facts yourself before you write `verified`. Work on one change at a time: make it, run the baseline,
run the demo with and without it, save the files, then `git checkout -- . && git clean -fd -e target` before the next
one. Leave the worktree clean (no demo file, no patch applied) when you finish. If an idea turns out to be caught by
the existing suite, drop it and try another; do not edit or delete existing tests. Finish by replying with a short
plain-text summary of the two changes (or saying which one you could not produce).
"""
    open(f'/tmp/agents/prompt-{gid}.txt', 'w').write(text)
    print(gid, wt, files)
