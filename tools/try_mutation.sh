#!/bin/bash
# tools/try_mutation.sh <patch.diff> <ID> [<ID>...]   apply a seeded change to /repo, run the quick checks, undo it.
# Prints per check: exit code and VIOLATION lines. Replay files written during the experiment are removed again.
PATCH="$1"; shift
cd /repo || exit 2
if ! git diff --quiet; then echo "repo working tree not clean"; exit 2; fi
if ! git apply --check "$PATCH" 2>/dev/null; then echo "PATCH DOES NOT APPLY: $PATCH"; git apply --check "$PATCH"; exit 3; fi
git apply "$PATCH"
for ID in "$@"; do
  before=$(ls /verif/replays/$ID 2>/dev/null | sort)
  cp /verif/evidence/$ID.json /tmp/ev.$ID.bak 2>/dev/null
  out=$(cd /verif && ${TIER_CMD:-bin/check} $ID ${TIER:-quick} 2>&1); code=$?
  echo "== $ID exit=$code"; echo "$out" | grep -A3 "^VIOLATION" | cut -c1-300 | head -${LINES_MAX:-12}
  echo "$out" | grep "INCONCLUSIVE" | head -3
  # remove new replay files
  for f in $(ls /verif/replays/$ID 2>/dev/null); do echo "$before" | grep -qx "$f" || rm -f /verif/replays/$ID/$f; done
  rmdir /verif/replays/$ID 2>/dev/null
  cp /tmp/ev.$ID.bak /verif/evidence/$ID.json 2>/dev/null
done
git -C /repo checkout -- .
[ -n "${SKIP_REBUILD:-}" ] || (cd /verif/harness && cargo build --release --offline >/dev/null 2>&1)
git -C /repo status --short | head
