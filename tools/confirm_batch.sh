#!/bin/bash
# confirm_batch.sh mA mB ID... : confirm the two named changes of each ID
MA=$1; MB=$2; shift 2
for id in "$@"; do for m in $MA $MB; do
  [ -f /tmp/out-$id/$m/patch.diff ] || { echo "RESULT $id $m: no patch"; continue; }
  /verif/tools/confirm_seed.sh $id $m 2>&1 | tail -25
done; done
