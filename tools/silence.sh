#!/bin/bash
# run every check of a tier under several seeds; report any run that is not silent
# usage: silence.sh <tier> <seed>...   (restores the committed evidence afterwards)
tier=$1; shift
cd /verif
bad=0
for s in "$@"; do
  for i in $(seq -w 1 20); do
    id=C$i
    out=$(VERIF_SEED=$s bin/check $id $tier 2>&1); rc=$?
    line=$(echo "$out" | grep '^gv:' | tail -1)
    echo "seed=$s $id rc=$rc $line"
    echo "$out" | grep '^gv-fuzz:' 
    if [ $rc -ne 0 ] || echo "$out" | grep -q '^VIOLATION'; then bad=1; echo "$out" | grep -A3 '^VIOLATION' | cut -c1-600; fi
  done
done
git checkout -- evidence 2>/dev/null
echo "silence.sh finished bad=$bad"
exit $bad
