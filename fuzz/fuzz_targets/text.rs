#![no_main]
// source text -> the text-mode oracle of the check named by GV_FUZZ_PROP (see harness/src/engine/fuzzrt.rs)
use libfuzzer_sys::{fuzz_target, Corpus};
fuzz_target!(|data: &[u8]| -> Corpus {
    if gv::engine::fuzzrt::fuzz_text(data) { Corpus::Keep } else { Corpus::Reject }
});
